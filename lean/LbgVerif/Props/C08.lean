/-
  C08 — "Point containment agrees with exact winding-number containment."   (PARTIAL)

  Subject: the LITERAL hand models `Model/PointInside.lean` of `Polygon2D.is_point_inside`,
  `is_point_inside_bound_rect`, `is_point_on_edge`, `point_relationship`, built on the
  GENERATED kernels `does_intersection_exist_line2d_sr`, `seg2_from_end_points`,
  `closest_point2d_on_line2d_s`, `p2_distance_to_point`; the harness runs the models against
  the real code and both against `Spec/Contain.lean`.

  Proved:
  1. the kernel the parity test uses (`segment_ray_test_iff`): segment first, ray second,
     edge parameter in the CLOSED `[0,1]`, ray parameter `≥ 0`, determinant `≠ 0`;
  2. `is_point_inside` is the parity of a count over the cyclic vertex pairs; it is invariant
     under cyclic rotation and under reversal of the vertex list (unconditionally — the closed
     edge range is symmetric), under translation, under any invertible linear map applied to
     polygon, point and test vector, and under positive scaling of the test vector;
     for a horizontal test vector `(c, 0)`, `c > 0`, and a query point in general position (no
     vertex at the point's height, point on no edge) it EQUALS the specification's
     crossing-number parity `Spec.Contain.insideParity` (at ℚ); via the linear invariance the
     same holds for any test direction after a change of coordinates
     (`is_point_inside_any_direction_eq_spec`);
  3. `bound_rect_sound`: a point rejected by the bounding-rectangle shortcut is not a convex
     combination of the vertices, so the shortcut only answers `False` outside the convex hull;
  4. `point_relationship = 0` iff some edge has a point within `tol` (squared form, `sqrt`
     laws as hypotheses);
  5. the decision trees of `polygon_relationship` / `does_polygon_touch` as Boolean functions.

  NOT proved: that crossing parity is containment (Jordan curve theorem) — i.e. that
  `Spec.Contain.insideParity` is "inside" for simple polygons; that every point of a simple
  polygon's region is a convex combination of its vertices; anything about floats
  (`1e-5` tilt, rounding).  `Polyface3D.is_point_inside` / `Face3D.is_point_on_face` are covered
  by the correspondence harness only.
-/
import LbgVerif.Model.PointInside
import LbgVerif.Model.PolygonRelationship
import LbgVerif.Lemmas.PointInside
import LbgVerif.Spec.Contain
import LbgVerif.Props.C10
import LbgVerif.Props.C11
import LbgVerif.Props.C12
import Mathlib.Tactic.Ring
import Mathlib.Tactic.Linarith
import Mathlib.Tactic.SplitIfs
import Mathlib.Algebra.Order.Field.Rat

set_option linter.unusedSectionVars false
set_option linter.unusedVariables false

namespace Lbg.Props.C08
open Lbg Lbg.Gen Lbg.Lemmas Lbg.Model.PointInside Lbg.Lemmas.PointInside
variable {α : Type} [Field α] [LinearOrder α] [IsStrictOrderedRing α]

/-! ## 1. The kernel used by the parity test -/

/-- `does_intersection_exist_line2d(segment, ray)` is `True` exactly when the direction
determinant is non-zero (the code's guard) and some point lies on the segment (parameter in the
closed `[0,1]`) and on the ray (parameter `≥ 0`).  Corollary of C11. -/
theorem segment_ray_test_iff (s r : LR2 α) :
    does_intersection_exist_line2d_sr s r = true ↔
      C11.Transversal2 s r ∧ ∃ q, C11.OnSeg2 s q ∧ C11.OnRay2 r q :=
  C11.does_intersection_exist_line2d_sr_iff_exists s r

/-- The same in parameter form, for the edge `a → b` (`from_end_points(a, b)`) and the test
ray `(p, d)`: `D = d.y (b.x−a.x) − d.x (b.y−a.y) ≠ 0`, `0 ≤ ua ≤ 1`, `0 ≤ ub`. -/
theorem edge_test_iff (p d a b : V2 α) :
    does_intersection_exist_line2d_sr (seg2_from_end_points a b) ⟨p, d⟩ = true ↔
      hitD a b d ≠ 0 ∧ 0 ≤ hitNa a p d / hitD a b d ∧ hitNa a p d / hitD a b d ≤ 1 ∧
        0 ≤ hitNb a b p / hitD a b d :=
  hit_iff p d a b

/-- The edge test does not depend on the direction in which the edge is walked — with NO side
condition: an intersection at parameter exactly 0 or 1 (a vertex on the ray) is counted for
both orientations, because the segment range is closed at both ends. -/
theorem edge_test_reverse (p d a b : V2 α) :
    does_intersection_exist_line2d_sr (seg2_from_end_points b a) ⟨p, d⟩ =
      does_intersection_exist_line2d_sr (seg2_from_end_points a b) ⟨p, d⟩ :=
  hit_swap p d a b

/-! ## 2. `is_point_inside` -/

/-- `is_point_inside` is `True` exactly when an odd number of cyclic vertex pairs
`(v[i-1], v[i])` span an edge that passes the kernel test against the ray. -/
theorem is_point_inside_eq_parity (vs : List (V2 α)) (p d : V2 α) :
    isPointInside vs p d = decide (((cyclicPairs vs).countP (fun q =>
      does_intersection_exist_line2d_sr (seg2_from_end_points q.1 q.2) ⟨p, d⟩)) % 2 = 1) :=
  isPointInside_eq vs p d

/-- **`is_point_inside_rotate`** — the answer does not depend on the start vertex. -/
theorem is_point_inside_rotate (vs : List (V2 α)) (n : ℕ) (p d : V2 α) :
    isPointInside (vs.rotate n) p d = isPointInside vs p d := by
  rw [isPointInside_eq, isPointInside_eq]
  unfold hits
  rw [countP_cyclicPairs_rotate]

/-- **`is_point_inside_reverse`** — the answer does not depend on the orientation of the
vertex list (every edge is reversed; see `edge_test_reverse`). -/
theorem is_point_inside_reverse (vs : List (V2 α)) (p d : V2 α) :
    isPointInside vs.reverse p d = isPointInside vs p d := by
  rw [isPointInside_eq, isPointInside_eq]
  unfold hits
  rw [countP_cyclicPairs_reverse]
  congr 4
  funext q
  exact hit_swap p d q.1 q.2

/-- **`is_point_inside_translate`** — moving polygon and point together (generated
`Point2D.move`) does not change the answer. -/
theorem is_point_inside_translate (vs : List (V2 α)) (p d t : V2 α) :
    isPointInside (vs.map (fun v => p2_move v t)) (p2_move p t) d = isPointInside vs p d := by
  rw [isPointInside_eq, isPointInside_eq]
  unfold hits
  rw [cyclicPairs_map, List.countP_map]
  congr 4
  funext q
  exact hit_translate p d q.1 q.2 t

/-- Any invertible linear change of coordinates applied to the polygon, the point and the test
vector leaves the answer unchanged. -/
theorem is_point_inside_linear (m11 m12 m21 m22 : α) (hM : m11 * m22 - m12 * m21 ≠ 0)
    (vs : List (V2 α)) (p d : V2 α) :
    isPointInside (vs.map (lin m11 m12 m21 m22)) (lin m11 m12 m21 m22 p)
      (lin m11 m12 m21 m22 d) = isPointInside vs p d := by
  rw [isPointInside_eq, isPointInside_eq]
  unfold hits
  rw [cyclicPairs_map, List.countP_map]
  congr 4
  funext q
  exact hit_linear m11 m12 m21 m22 hM p d q.1 q.2

/-- Only the direction of the test vector matters, not its length. -/
theorem is_point_inside_scale_dir (k : α) (hk : 0 < k) (vs : List (V2 α)) (p d : V2 α) :
    isPointInside vs p ⟨k * d.x, k * d.y⟩ = isPointInside vs p d := by
  rw [isPointInside_eq, isPointInside_eq]
  unfold hits
  congr 4
  funext q
  exact hit_scale_dir k hk p d q.1 q.2

/-- With a horizontal test vector the edge `a → b` is counted iff it is not horizontal, the
point's height is in the CLOSED height range of the edge, and the crossing is at or right of the
point.  This is the exact statement of the "fringe cases" in the docstring: a vertex at the
point's height is counted by both incident edges. -/
theorem edge_test_horizontal (c : α) (hc : 0 < c) (p a b : V2 α) :
    does_intersection_exist_line2d_sr (seg2_from_end_points a b) ⟨p, ⟨c, 0⟩⟩ = true ↔
      (a.y < b.y ∧ a.y ≤ p.y ∧ p.y ≤ b.y ∧ 0 ≤ orientG a b p) ∨
      (b.y < a.y ∧ b.y ≤ p.y ∧ p.y ≤ a.y ∧ orientG a b p ≤ 0) :=
  hit_horizontal_iff' c hc p a b

/-! ### Tie to the executable specification (ℚ) -/

open Lbg.Spec.Contain in
/-- A point strictly between the heights of the end points of an edge and on its carrier line
is on the (closed) edge. -/
theorem onSegment_of_collinear_between (p a b : Pt)
    (h : (a.y < p.y ∧ p.y < b.y) ∨ (b.y < p.y ∧ p.y < a.y)) (ho : orient a b p = 0) :
    onSegment p a b = true := by
  unfold onSegment
  unfold orient at ho
  simp only [Bool.and_eq_true, decide_eq_true_eq, min_le_iff, le_max_iff]
  have key : (b.x - a.x) * (p.y - a.y) = (b.y - a.y) * (p.x - a.x) := by linarith
  have key2 : (b.x - a.x) * (b.y - p.y) = (b.y - a.y) * (b.x - p.x) := by linarith
  refine ⟨⟨⟨⟨by unfold orient; linarith, ?_⟩, ?_⟩, ?_⟩, ?_⟩
  · rcases h with ⟨h1, h2⟩ | ⟨h1, h2⟩
    · rcases le_total a.x b.x with hx | hx
      · left
        by_contra hn
        have := mul_nonneg (sub_nonneg.mpr hx) (sub_pos.mpr h1).le
        have := mul_neg_of_pos_of_neg (by linarith : 0 < b.y - a.y)
          (by linarith : p.x - a.x < 0)
        linarith
      · right
        by_contra hn
        have := mul_nonpos_of_nonpos_of_nonneg (sub_nonpos.mpr hx) (sub_pos.mpr h2).le
        have := mul_pos (by linarith : 0 < b.y - a.y) (by linarith : 0 < b.x - p.x)
        linarith
    · rcases le_total a.x b.x with hx | hx
      · left
        by_contra hn
        have := mul_nonpos_of_nonneg_of_nonpos (sub_nonneg.mpr hx)
          (by linarith : p.y - a.y ≤ 0)
        have := mul_pos_of_neg_of_neg (by linarith : b.y - a.y < 0)
          (by linarith : p.x - a.x < 0)
        linarith
      · right
        by_contra hn
        have := mul_nonneg_of_nonpos_of_nonpos (sub_nonpos.mpr hx)
          (by linarith : b.y - p.y ≤ 0)
        have := mul_neg_of_neg_of_pos (by linarith : b.y - a.y < 0)
          (by linarith : 0 < b.x - p.x)
        linarith
  · rcases h with ⟨h1, h2⟩ | ⟨h1, h2⟩
    · rcases le_total a.x b.x with hx | hx
      · right
        by_contra hn
        have := mul_nonneg (sub_nonneg.mpr hx) (sub_pos.mpr h2).le
        have := mul_neg_of_pos_of_neg (by linarith : 0 < b.y - a.y)
          (by linarith : b.x - p.x < 0)
        linarith
      · left
        by_contra hn
        have := mul_nonpos_of_nonpos_of_nonneg (sub_nonpos.mpr hx) (sub_pos.mpr h1).le
        have := mul_pos (by linarith : 0 < b.y - a.y) (by linarith : 0 < p.x - a.x)
        linarith
    · rcases le_total a.x b.x with hx | hx
      · right
        by_contra hn
        have := mul_nonpos_of_nonneg_of_nonpos (sub_nonneg.mpr hx)
          (by linarith : b.y - p.y ≤ 0)
        have := mul_pos_of_neg_of_neg (by linarith : b.y - a.y < 0)
          (by linarith : b.x - p.x < 0)
        linarith
      · left
        by_contra hn
        have := mul_nonneg_of_nonpos_of_nonpos (sub_nonpos.mpr hx)
          (by linarith : p.y - a.y ≤ 0)
        have := mul_neg_of_neg_of_pos (by linarith : b.y - a.y < 0)
          (by linarith : 0 < p.x - a.x)
        linarith
  · rcases h with ⟨h1, h2⟩ | ⟨h1, h2⟩
    · left; exact h1.le
    · right; exact h1.le
  · rcases h with ⟨h1, h2⟩ | ⟨h1, h2⟩
    · right; exact h2.le
    · left; exact h2.le

open Lbg.Spec.Contain in
/-- Per edge, in general position, the code's test is the specification's crossing test. -/
theorem edge_test_eq_spec (c : ℚ) (hc : 0 < c) (p a b : Pt) (ha : a.y ≠ p.y) (hb : b.y ≠ p.y)
    (hs : onSegment p a b = false) :
    hit p ⟨c, 0⟩ (a, b) = (signedCross p a b != 0) := by
  rw [Bool.eq_iff_iff, hit_horizontal_iff' c hc]
  have ho : orientG a b p = orient a b p := rfl
  rw [ho]
  have hne : ∀ (h : (a.y < p.y ∧ p.y < b.y) ∨ (b.y < p.y ∧ p.y < a.y)), orient a b p ≠ 0 := by
    intro h h0
    rw [onSegment_of_collinear_between p a b h h0] at hs
    exact Bool.noConfusion hs
  have ha' := lt_or_gt_of_ne ha
  have hb' := lt_or_gt_of_ne hb
  unfold signedCross
  simp only [bne_iff_ne, ne_eq]
  constructor
  · rintro (⟨h1, h2, h3, h4⟩ | ⟨h1, h2, h3, h4⟩)
    · have h2' : a.y < p.y := lt_of_le_of_ne h2 ha
      have h3' : p.y < b.y := lt_of_le_of_ne h3 (Ne.symm hb)
      have := hne (Or.inl ⟨h2', h3'⟩)
      have h4' : 0 < orient a b p := lt_of_le_of_ne h4 (Ne.symm this)
      simp [h2, h3', h4']
    · have h2' : b.y < p.y := lt_of_le_of_ne h2 hb
      have h3' : p.y < a.y := lt_of_le_of_ne h3 (Ne.symm ha)
      have := hne (Or.inr ⟨h2', h3'⟩)
      have h4' : orient a b p < 0 := lt_of_le_of_ne h4 this
      simp [not_le.mpr h3', h2, h4']
  · intro h
    split_ifs at h with h1 h2 h3 h4 h5 <;> simp at h
    · exact Or.inl ⟨by linarith, h1, h2.le, h3.le⟩
    · exact Or.inr ⟨by linarith, h4, by linarith, h5.le⟩

open Lbg.Spec.Contain in
/-- **Tie to `Spec/Contain`** — for a horizontal test vector `(c, 0)`, `c > 0`, and a query
point in general position (no vertex at the point's height; the point is on no edge) the
model's answer equals the specification's crossing-number parity for the single loop `vs`.
(The specification's ray is horizontal; for other directions see
`is_point_inside_any_direction_eq_spec`.) -/
theorem is_point_inside_horizontal_eq_spec (vs : List Pt) (p : Pt) (c : ℚ) (hc : 0 < c)
    (hv : ∀ v ∈ vs, v.y ≠ p.y) (hb : onBoundary [vs] p = false) :
    isPointInside vs p ⟨c, 0⟩ = insideParity [vs] p := by
  rw [isPointInside_eq]
  unfold insideParity totalCrossings crossings loopSegs hits
  simp only [List.map_cons, List.map_nil, List.sum_cons, List.sum_nil, Nat.add_zero]
  congr 3
  apply List.countP_congr
  intro q hq
  obtain ⟨m1, m2⟩ := mem_of_mem_cyclicPairs hq
  have hs : onSegment p q.1 q.2 = false := by
    unfold onBoundary allSegs loopSegs at hb
    simp only [List.flatMap_cons, List.flatMap_nil, List.append_nil] at hb
    rw [List.any_eq_false] at hb
    simpa using hb q hq
  rw [edge_test_eq_spec c hc p q.1 q.2 (hv _ m1) (hv _ m2) hs]

open Lbg.Spec.Contain in
/-- **Any test direction** — let `M` be an invertible linear map sending the test vector `d`
to a horizontal vector `(c, 0)`, `c > 0`.  If the transformed query is in general position, the
model's answer with direction `d` equals the specification's crossing-number parity of the
transformed polygon and point.  (That containment itself is invariant under `M` is geometry and
is not proved here.) -/
theorem is_point_inside_any_direction_eq_spec (m11 m12 m21 m22 : ℚ)
    (hM : m11 * m22 - m12 * m21 ≠ 0) (vs : List Pt) (p d : Pt) (c : ℚ) (hc : 0 < c)
    (hd : lin m11 m12 m21 m22 d = ⟨c, 0⟩)
    (hv : ∀ v ∈ vs, (lin m11 m12 m21 m22 v).y ≠ (lin m11 m12 m21 m22 p).y)
    (hb : onBoundary [vs.map (lin m11 m12 m21 m22)] (lin m11 m12 m21 m22 p) = false) :
    isPointInside vs p d =
      insideParity [vs.map (lin m11 m12 m21 m22)] (lin m11 m12 m21 m22 p) := by
  rw [← is_point_inside_linear m11 m12 m21 m22 hM vs p d, hd]
  apply is_point_inside_horizontal_eq_spec _ _ c hc _ hb
  intro v hv'
  obtain ⟨w, hw, rfl⟩ := List.mem_map.mp hv'
  exact hv w hw

/-- Non-vacuity: the unit square, the centre, test vector `(1, 0)`: hypotheses hold, the answer
is `true`; the default tilted vector `(1, 1/100000)` gives the same. -/
example :
    let vs : List (V2 ℚ) := [⟨0, 0⟩, ⟨2, 0⟩, ⟨2, 2⟩, ⟨0, 2⟩]
    let p : V2 ℚ := ⟨1, 1⟩
    (∀ v ∈ vs, v.y ≠ p.y) ∧ Spec.Contain.onBoundary [vs] p = false ∧
      isPointInside vs p ⟨1, 0⟩ = true ∧ isPointInside vs p ⟨1, 1 / 100000⟩ = true ∧
      isPointInside vs ⟨3, 1⟩ ⟨1, 0⟩ = false := by
  decide +kernel

/-- The fringe case of the docstring, reproduced on the model: a horizontal ray through a
vertex counts that vertex twice — the diamond's centre is reported outside with the test vector
`(1, 0)` (and inside with the default tilted vector). -/
example :
    let vs : List (V2 ℚ) := [⟨0, -1⟩, ⟨1, 0⟩, ⟨0, 1⟩, ⟨-1, 0⟩]
    isPointInside vs ⟨0, 0⟩ ⟨1, 0⟩ = false ∧ isPointInside vs ⟨0, 0⟩ ⟨1, 1 / 100000⟩ = true := by
  decide +kernel

/-! ## 3. The bounding-rectangle shortcut -/

/-- `p` is a convex combination of the vertices `vs`. -/
def InHull (vs : List (V2 α)) (p : V2 α) : Prop :=
  ∃ ws : List α, ws.length = vs.length ∧ (∀ w ∈ ws, 0 ≤ w) ∧ ws.sum = 1 ∧
    p.x = wsum ws (vs.map (·.x)) ∧ p.y = wsum ws (vs.map (·.y))

/-- The model's `(min, max)` is the scan of `_calculate_min_max` proved in C10. -/
theorem boundRect_eq_minMax2 (v0 : V2 α) (rest : List (V2 α)) :
    boundRect v0 rest = C10.minMax2 v0 rest := rfl

/-- Every convex combination of the vertices lies inside `[min, max]` (both coordinates). -/
theorem hull_inside_bound_rect (v0 : V2 α) (rest : List (V2 α)) (p : V2 α)
    (h : InHull (v0 :: rest) p) :
    (boundRect v0 rest).1.x ≤ p.x ∧ p.x ≤ (boundRect v0 rest).2.x ∧
    (boundRect v0 rest).1.y ≤ p.y ∧ p.y ≤ (boundRect v0 rest).2.y := by
  obtain ⟨ws, hlen, hw, hsum, hx, hy⟩ := h
  rw [boundRect_eq_minMax2]
  obtain ⟨_, _, hall, _⟩ := C10.minMax2_spec v0 rest
  have bx := convex_comb_bounds ws ((v0 :: rest).map (·.x)) (C10.minMax2 v0 rest).1.x
    (C10.minMax2 v0 rest).2.x (by simpa using hlen) hw hsum (by
      intro x hxm
      obtain ⟨v, hv, rfl⟩ := List.mem_map.mp hxm
      exact ⟨(hall v hv).1, (hall v hv).2.1⟩)
  have by' := convex_comb_bounds ws ((v0 :: rest).map (·.y)) (C10.minMax2 v0 rest).1.y
    (C10.minMax2 v0 rest).2.y (by simpa using hlen) hw hsum (by
      intro x hxm
      obtain ⟨v, hv, rfl⟩ := List.mem_map.mp hxm
      exact ⟨(hall v hv).2.2.1, (hall v hv).2.2.2⟩)
  rw [hx, hy]
  exact ⟨bx.1, bx.2, by'.1, by'.2⟩

/-- **`bound_rect_sound`** — a point that fails the bounding-rectangle test of
`is_point_inside_bound_rect` (`x < min.x or y < min.y or x > max.x or y > max.y`) is not a convex
combination of the vertices, hence outside the convex hull and outside every polygon drawn on
those vertices. -/
theorem bound_rect_sound (v0 : V2 α) (rest : List (V2 α)) (p : V2 α)
    (h : outsideRect (boundRect v0 rest) p = true) : ¬ InHull (v0 :: rest) p := by
  intro hh
  obtain ⟨h1, h2, h3, h4⟩ := hull_inside_bound_rect v0 rest p hh
  unfold outsideRect at h
  simp only [decide_eq_true_eq, gt_iff_lt] at h
  rcases h with h | h | h | h <;> linarith

/-- The shortcut can only turn an answer into `False`, and only outside the convex hull:
`is_point_inside_bound_rect` differs from `is_point_inside` only at points that are not convex
combinations of the vertices, and there it answers `False`. -/
theorem bound_rect_only_rejects_outside_hull (vs : List (V2 α)) (p d : V2 α)
    (hne : isPointInsideBoundRect vs p d ≠ isPointInside vs p d) :
    isPointInsideBoundRect vs p d = false ∧ ¬ InHull vs p := by
  cases vs with
  | nil =>
    refine ⟨rfl, ?_⟩
    rintro ⟨ws, hlen, _, hsum, _⟩
    have : ws = [] := List.length_eq_zero_iff.mp (by simpa using hlen)
    subst this
    simp at hsum
  | cons v0 rest =>
    unfold isPointInsideBoundRect at hne ⊢
    simp only at hne ⊢
    split_ifs at hne ⊢ with h
    · exact ⟨rfl, bound_rect_sound v0 rest p h⟩
    · exact absurd rfl hne

/-- Inside the rectangle the two routines agree. -/
theorem bound_rect_agrees_inside (v0 : V2 α) (rest : List (V2 α)) (p d : V2 α)
    (h : outsideRect (boundRect v0 rest) p = false) :
    isPointInsideBoundRect (v0 :: rest) p d = isPointInside (v0 :: rest) p d := by
  unfold isPointInsideBoundRect
  simp [h]

/-- Every vertex and every point of every edge is a convex combination of the vertices
(so the shortcut never rejects a boundary point). Stated for a vertex at position `i`. -/
theorem vertex_in_hull (vs : List (V2 α)) (i : ℕ) (hi : i < vs.length) :
    InHull vs (vs[i]) := by
  induction vs generalizing i with
  | nil => simp at hi
  | cons v t ih =>
    cases i with
    | zero =>
      refine ⟨1 :: List.replicate t.length 0, by simp, ?_, by simp, ?_, ?_⟩
      · intro w hw
        rcases List.mem_cons.mp hw with rfl | hw
        · exact zero_le_one
        · rw [List.eq_of_mem_replicate hw]
      · have : ∀ (xs : List α), wsum (List.replicate xs.length 0) xs = 0 := by
          intro xs
          induction xs with
          | nil => simp [wsum]
          | cons x xs ih =>
            simp only [wsum, List.length_cons, List.replicate_succ, List.zipWith_cons_cons,
              List.sum_cons, zero_mul, zero_add] at ih ⊢
            exact ih
        have h2 := this (t.map (·.x))
        simp only [List.length_map] at h2
        simp only [List.getElem_cons_zero, wsum, List.map_cons, List.zipWith_cons_cons,
          List.sum_cons, one_mul] at h2 ⊢
        rw [h2, add_zero]
      · have : ∀ (xs : List α), wsum (List.replicate xs.length 0) xs = 0 := by
          intro xs
          induction xs with
          | nil => simp [wsum]
          | cons x xs ih =>
            simp only [wsum, List.length_cons, List.replicate_succ, List.zipWith_cons_cons,
              List.sum_cons, zero_mul, zero_add] at ih ⊢
            exact ih
        have h2 := this (t.map (·.y))
        simp only [List.length_map] at h2
        simp only [List.getElem_cons_zero, wsum, List.map_cons, List.zipWith_cons_cons,
          List.sum_cons, one_mul] at h2 ⊢
        rw [h2, add_zero]
    | succ j =>
      obtain ⟨ws, hlen, hw, hsum, hx, hy⟩ := ih j (by simpa using hi)
      refine ⟨0 :: ws, by simp [hlen], ?_, by simp [hsum], ?_, ?_⟩
      · intro w hw'
        rcases List.mem_cons.mp hw' with rfl | hw'
        · exact le_refl _
        · exact hw w hw'
      · simp only [List.getElem_cons_succ, wsum, List.map_cons, List.zipWith_cons_cons,
          List.sum_cons, zero_mul, zero_add]
        exact hx
      · simp only [List.getElem_cons_succ, wsum, List.map_cons, List.zipWith_cons_cons,
          List.sum_cons, zero_mul, zero_add]
        exact hy

/-! ## 4. `is_point_on_edge` / `point_relationship` -/

/-- The segments of the polygon are exactly the edges `from_end_points(v[i-1], v[i])`. -/
theorem mem_segments (vs : List (V2 α)) (s : LR2 α) :
    s ∈ segments vs ↔ ∃ q ∈ cyclicPairs vs, s = seg2_from_end_points q.1 q.2 := by
  unfold segments
  have : ∀ (l : List (LR2 α)), s ∈ popFirstToEnd l ↔ s ∈ l := by
    intro l
    cases l with
    | nil => simp [popFirstToEnd]
    | cons a t => simp only [popFirstToEnd, List.mem_append, List.mem_cons]; tauto
  rw [this, List.mem_map]
  constructor
  · rintro ⟨q, hq, rfl⟩; exact ⟨q, hq, rfl⟩
  · rintro ⟨q, hq, rfl⟩; exact ⟨q, hq, rfl⟩

/-- `sqrt y ≤ tol ↔ y ≤ tol²` for `y, tol ≥ 0` under the `sqrt` law. -/
theorem sqrt_le_iff (M : MathOps α)
    (hsqrt : ∀ x, 0 ≤ x → M.sqrt x * M.sqrt x = x ∧ 0 ≤ M.sqrt x) (y tol : α) (hy : 0 ≤ y)
    (ht : 0 ≤ tol) : M.sqrt y ≤ tol ↔ y ≤ tol * tol := by
  obtain ⟨h1, h2⟩ := hsqrt y hy
  constructor
  · intro h
    calc y = M.sqrt y * M.sqrt y := h1.symm
      _ ≤ tol * tol := mul_le_mul h h h2 ht
  · intro h
    by_contra hn
    have hlt : tol < M.sqrt y := not_le.mp hn
    have : tol * tol < M.sqrt y * M.sqrt y := mul_lt_mul'' hlt hlt ht ht
    linarith

/-- **`is_point_on_edge`** (`tol ≥ 0`, `sqrt` law): `True` exactly when some edge of the polygon
has a point within distance `tol` of the query (stated on squared distances).  Uses C12:
the generated `closest_point2d_on_line2d` returns a point of the segment and no point of the
segment is closer. -/
theorem is_point_on_edge_iff (M : MathOps α)
    (hsqrt : ∀ x, 0 ≤ x → M.sqrt x * M.sqrt x = x ∧ 0 ≤ M.sqrt x)
    (vs : List (V2 α)) (p : V2 α) (tol : α) (ht : 0 ≤ tol) :
    isPointOnEdge M vs p tol = true ↔
      ∃ s ∈ segments vs, ∃ x, C12.OnSeg2 s x ∧ C12.distSq2 p x ≤ tol * tol := by
  unfold isPointOnEdge
  rw [List.any_eq_true]
  have hd : ∀ a b : V2 α, p2_distance_to_point M a b = M.sqrt (C12.distSq2 a b) := fun _ _ => rfl
  have hnn : ∀ a b : V2 α, 0 ≤ C12.distSq2 a b := by
    intro a b
    unfold C12.distSq2
    nlinarith [mul_self_nonneg (a.x - b.x), mul_self_nonneg (a.y - b.y)]
  constructor
  · rintro ⟨s, hs, h⟩
    rw [decide_eq_true_eq, hd, sqrt_le_iff M hsqrt _ _ (hnn _ _) ht] at h
    exact ⟨s, hs, _, C12.closest_point2d_on_line2d_s_on_object p s, h⟩
  · rintro ⟨s, hs, x, hx, h⟩
    refine ⟨s, hs, ?_⟩
    rw [decide_eq_true_eq, hd, sqrt_le_iff M hsqrt _ _ (hnn _ _) ht]
    exact le_trans (C12.closest_point2d_on_line2d_s_minimal p s x hx) h

/-- **`point_relationship` decision** — the result is `0` exactly when the point is on an edge
within the tolerance; otherwise it is `+1` / `−1` according to `is_point_inside_bound_rect`. -/
theorem point_relationship_cases (M : MathOps α) (vs : List (V2 α)) (p : V2 α) (tol : α)
    (d : V2 α) :
    (pointRelationship M vs p tol d = 0 ↔ isPointOnEdge M vs p tol = true) ∧
    (pointRelationship M vs p tol d = 1 ↔
      isPointOnEdge M vs p tol = false ∧ isPointInsideBoundRect vs p d = true) ∧
    (pointRelationship M vs p tol d = -1 ↔
      isPointOnEdge M vs p tol = false ∧ isPointInsideBoundRect vs p d = false) := by
  unfold pointRelationship
  cases isPointOnEdge M vs p tol <;> cases isPointInsideBoundRect vs p d <;> simp

/-- `point_relationship = 0` iff some edge has a point within `tol` (squared form). -/
theorem point_relationship_zero_iff (M : MathOps α)
    (hsqrt : ∀ x, 0 ≤ x → M.sqrt x * M.sqrt x = x ∧ 0 ≤ M.sqrt x)
    (vs : List (V2 α)) (p : V2 α) (tol : α) (ht : 0 ≤ tol) (d : V2 α) :
    pointRelationship M vs p tol d = 0 ↔
      ∃ q ∈ cyclicPairs vs, ∃ x, C12.OnSeg2 (seg2_from_end_points q.1 q.2) x ∧
        C12.distSq2 p x ≤ tol * tol := by
  rw [(point_relationship_cases M vs p tol d).1, is_point_on_edge_iff M hsqrt vs p tol ht]
  constructor
  · rintro ⟨s, hs, x, hx, h⟩
    obtain ⟨q, hq, rfl⟩ := (mem_segments vs s).mp hs
    exact ⟨q, hq, x, hx, h⟩
  · rintro ⟨q, hq, x, hx, h⟩
    exact ⟨_, (mem_segments vs _).mpr ⟨q, hq, rfl⟩, x, hx, h⟩

/-- The result is always one of `−1, 0, +1`. -/
theorem point_relationship_range (M : MathOps α) (vs : List (V2 α)) (p : V2 α) (tol : α)
    (d : V2 α) :
    pointRelationship M vs p tol d = -1 ∨ pointRelationship M vs p tol d = 0 ∨
      pointRelationship M vs p tol d = 1 := by
  unfold pointRelationship
  split_ifs <;> simp

/-- A point exactly on an edge (in particular every vertex) is reported as on the edge for
every `tol ≥ 0`. -/
theorem point_relationship_on_edge (M : MathOps α)
    (hsqrt : ∀ x, 0 ≤ x → M.sqrt x * M.sqrt x = x ∧ 0 ≤ M.sqrt x)
    (vs : List (V2 α)) (p : V2 α) (tol : α) (ht : 0 ≤ tol) (d : V2 α)
    (q : V2 α × V2 α) (hq : q ∈ cyclicPairs vs)
    (hp : C12.OnSeg2 (seg2_from_end_points q.1 q.2) p) :
    pointRelationship M vs p tol d = 0 := by
  rw [point_relationship_zero_iff M hsqrt vs p tol ht]
  refine ⟨q, hq, p, hp, ?_⟩
  have : C12.distSq2 p p = 0 := by unfold C12.distSq2; ring
  rw [this]
  exact mul_nonneg ht ht

/-! ## 5. Decision trees of `polygon_relationship` / `does_polygon_touch` -/

section decision
open Lbg.Model.PolygonRelationship

/-- Exhaustiveness: the answer is one of `−1, 0, +1`. -/
theorem polygon_relationship_range (bbox : Bool) (r1 r2 : List Int)
    (probe crossing probe2 : Bool) :
    polygonRelationship bbox r1 r2 probe crossing probe2 = -1 ∨
    polygonRelationship bbox r1 r2 probe crossing probe2 = 0 ∨
    polygonRelationship bbox r1 r2 probe crossing probe2 = 1 := by
  unfold polygonRelationship
  split_ifs <;> simp

/-- **Inside** is answered exactly when the bounding rectangles overlap, no vertex of the other
polygon is strictly outside this one (`all r1 ≥ 0`), no vertex of this polygon is strictly inside
the other (`all r2 ≤ 0`), the probe point of the other polygon is inside this one, and no edge of
the inward-offset other polygon crosses an edge of this one. -/
theorem polygon_relationship_inside_iff (bbox : Bool) (r1 r2 : List Int)
    (probe crossing probe2 : Bool) :
    polygonRelationship bbox r1 r2 probe crossing probe2 = 1 ↔
      bbox = true ∧ (∀ r ∈ r1, 0 ≤ r) ∧ (∀ r ∈ r2, r ≤ 0) ∧ probe = true ∧ crossing = false := by
  unfold polygonRelationship
  split_ifs with h1 h2 h3 h4 h5 h6 <;>
    simp_all [List.all_eq_true]

/-- In particular `+1` requires that no vertex of the other polygon is strictly outside and no
vertex of this polygon is strictly inside the other. -/
theorem polygon_relationship_inside_sound (bbox : Bool) (r1 r2 : List Int)
    (probe crossing probe2 : Bool)
    (h : polygonRelationship bbox r1 r2 probe crossing probe2 = 1) :
    (-1 : Int) ∉ r1 ∧ (1 : Int) ∉ r2 := by
  obtain ⟨_, h1, h2, _, _⟩ := (polygon_relationship_inside_iff _ _ _ _ _ _).mp h
  exact ⟨fun hm => absurd (h1 _ hm) (by decide), fun hm => absurd (h2 _ hm) (by decide)⟩

/-- **Outside** (with overlapping bounding rectangles) requires: no vertex of either polygon
strictly inside the other, and no crossing of this polygon with the offset other polygon. -/
theorem polygon_relationship_outside_sound (r1 r2 : List Int) (probe crossing probe2 : Bool)
    (h : polygonRelationship true r1 r2 probe crossing probe2 = -1) :
    (1 : Int) ∉ r1 ∧ (1 : Int) ∉ r2 ∧ crossing = false := by
  unfold polygonRelationship at h
  split_ifs at h with h1 h2 h3 h4 h5 h6 <;> simp_all

/-- Disjoint bounding rectangles always give "outside". -/
theorem polygon_relationship_no_bbox (r1 r2 : List Int) (probe crossing probe2 : Bool) :
    polygonRelationship false r1 r2 probe crossing probe2 = -1 := by
  simp [polygonRelationship]

/-- A vertex of the other polygon strictly inside this one together with a vertex strictly
outside (bounding rectangles overlapping) gives "overlap". -/
theorem polygon_relationship_mixed_overlap (r1 r2 : List Int) (probe crossing probe2 : Bool)
    (hin : (1 : Int) ∈ r1) (hout : (-1 : Int) ∈ r1) :
    polygonRelationship true r1 r2 probe crossing probe2 = 0 := by
  unfold polygonRelationship
  have hall : r1.all (fun r => decide (0 ≤ r)) = false := by
    rw [List.all_eq_false]
    exact ⟨-1, hout, by decide⟩
  simp [hall, hin]

/-- A crossing of this polygon with the offset other polygon never yields "inside" or
"outside". -/
theorem polygon_relationship_crossing (r1 r2 : List Int) (probe probe2 : Bool) :
    polygonRelationship true r1 r2 probe true probe2 = 0 := by
  unfold polygonRelationship
  split_ifs <;> simp_all

/-- `does_polygon_touch` is `False` exactly when the bounding rectangles are disjoint, or no
vertex of either polygon is on or inside the other and no two edges cross. -/
theorem does_polygon_touch_false_iff (bbox : Bool) (r1 r2 : List Int) (crossing0 : Bool) :
    doesPolygonTouch bbox r1 r2 crossing0 = false ↔
      bbox = false ∨ ((0 : Int) ∉ r1 ∧ (1 : Int) ∉ r1 ∧ (0 : Int) ∉ r2 ∧ (1 : Int) ∉ r2 ∧
        crossing0 = false) := by
  unfold doesPolygonTouch
  cases bbox <;> split_ifs with h1 h2 h3 h4 <;> simp_all <;> tauto

/-- Consistency of the two routines: if `polygon_relationship` answers "inside" for a polygon
with at least one vertex whose relationships are in `{−1, 0, +1}`, `does_polygon_touch` (same
bounding-rectangle answer and vertex relationships) answers `True`. -/
theorem inside_implies_touch (bbox : Bool) (r1 r2 : List Int) (probe crossing probe2 : Bool)
    (crossing0 : Bool) (hne : r1 ≠ []) (hr : ∀ r ∈ r1, r = -1 ∨ r = 0 ∨ r = 1)
    (h : polygonRelationship bbox r1 r2 probe crossing probe2 = 1) :
    doesPolygonTouch bbox r1 r2 crossing0 = true := by
  obtain ⟨hb, h1, _, _, _⟩ := (polygon_relationship_inside_iff _ _ _ _ _ _).mp h
  obtain ⟨r, hrm⟩ := List.exists_mem_of_ne_nil _ hne
  have h0 := h1 r hrm
  have hc : (0 : Int) ∈ r1 ∨ (1 : Int) ∈ r1 := by
    rcases hr r hrm with rfl | rfl | rfl
    · exact absurd h0 (by decide)
    · left; exact hrm
    · right; exact hrm
  unfold doesPolygonTouch
  subst hb
  simp
  exact Or.inl hc

end decision

end Lbg.Props.C08
