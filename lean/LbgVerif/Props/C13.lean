/-
  C13 — serialisation round trips and equality / hash are value-consistent.

  "from_dict(to_dict(x)) and from_array(to_array(x)) rebuild an object with identical defining
  coordinates (unit-vector fields equal up to re-normalisation); duplicate() compares equal to x
  with an equal hash; == is reflexive, symmetric and implies equal hashes; objects with any
  differing coordinate compare unequal (a point and a vector with equal coordinates are equal by
  design)."

  Property theorems only (structure-equality helpers live in `Lemmas/Serial.lean`).  All
  statements are about the definitions regenerated from the repository by py2lean
  (`Lbg.Gen.*` in `Gen/Serial.lean`): for each class prefix `pre`,
    `pre_dict_roundtrip x  = Cls.from_dict(x.to_dict())`,
    `pre_array_roundtrip x = Cls.from_array(x.to_array())`,
    `pre_copy x            = x.duplicate()`,
    `pre_eq x y            = (x == y)`.

  What is hand-written here (and tied to the code by the harness, not by the translator): the
  key functions `pre_key` — the tuple `__key()` returns, which is what `__hash__` hashes.  The
  theorems `pre_eq_iff_key` show that the GENERATED `pre_eq` is exactly equality of these keys,
  hence `hash(x.__key()) = hash(y.__key())` for ANY hash function `h : Key → H` into any type `H`
  (in particular `H = Int`, CPython's `hash`) (`pre_hash_eq`).

  Sections: A vectors and points, B segments and rays, C plane, D arcs, E solids,
  F non-vacuity examples.
-/
import LbgVerif.Gen.Serial
import LbgVerif.Props.C02
import LbgVerif.Lemmas.Serial
import LbgVerif.Lemmas.Isometry
import Mathlib.Tactic.Ring
import Mathlib.Tactic.Tauto
import Mathlib.Algebra.Order.Field.Rat

set_option linter.unusedSectionVars false
set_option linter.unusedVariables false
set_option linter.unusedTactic false
set_option linter.unusedSimpArgs false
set_option linter.unreachableTactic false
set_option linter.unnecessarySeqFocus false

namespace Lbg.Props.C13
open Lbg Lbg.Gen Lbg.Lemmas Lbg.Lemmas.Serial
open Lbg.Props.C02 (PlaneValid Arc2Coherent planeValid_ext Mq)

variable {α : Type} [Field α] [LinearOrder α] [IsStrictOrderedRing α]

/-! ## Key functions (`__key()`), the hand-written part

`__hash__` is `hash(self.__key())` and `__eq__` is `self.__key() == other.__key()` in every class;
the tuples below are those keys, flattened to scalars (a nested `Point`/`Vector`/`Plane` compares
and hashes through its own key). -/

/-- `Vector2D.__key` / `Point2D.__key`: `(x, y)`. -/
def v2_key (a : V2 α) : α × α := (a.x, a.y)
/-- `Vector3D.__key` / `Point3D.__key`: `(x, y, z)`. -/
def v3_key (a : V3 α) : α × α × α := (a.x, a.y, a.z)
/-- `Base1DIn2D.__key` (`LineSegment2D`, `Ray2D`): `(p, v)`. -/
def lr2_key (a : LR2 α) : (α × α) × (α × α) := (v2_key a.p, v2_key a.v)
/-- `Base1DIn3D.__key` (`LineSegment3D`, `Ray3D`): `(p, v)`. -/
def lr3_key (a : LR3 α) : (α × α × α) × (α × α × α) := (v3_key a.p, v3_key a.v)
/-- `Plane.__key`: `(n, o, x)`. -/
def plane_key (a : PlaneS α) : (α × α × α) × (α × α × α) × (α × α × α) :=
  (v3_key a.n, v3_key a.o, v3_key a.x)
/-- `Arc2D.__key`: `(c, r, a1, a2)`. -/
def arc2_key (a : Arc2S α) : (α × α) × α × α × α := (v2_key a.c, a.r, a.a1, a.a2)
/-- `Arc3D.__key`: `(plane, radius, a1, a2)`. -/
def arc3_key (a : Arc3S α) : ((α × α × α) × (α × α × α) × (α × α × α)) × α × α × α :=
  (plane_key a.plane, a.arc2d.r, a.arc2d.a1, a.arc2d.a2)
/-- `Sphere.__key`: `(center, radius)`. -/
def sphere_key (a : SphereS α) : (α × α × α) × α := (v3_key a.center, a.radius)
/-- `Cone.__key`: `(vertex, axis, angle)`. -/
def cone_key (a : ConeS α) : (α × α × α) × (α × α × α) × α :=
  (v3_key a.vertex, v3_key a.axis, a.angle)
/-- `Cylinder.__key`: `(center, axis, radius)`. -/
def cyl_key (a : CylS α) : (α × α × α) × (α × α × α) × α :=
  (v3_key a.center, v3_key a.axis, a.radius)

/-! ## A. Vectors and points

`to_dict` / `to_array` store the coordinates and `from_dict` / `from_array` / `duplicate` hand them to
the constructor, which stores them verbatim: no arithmetic is performed, so all round trips are the
identity slot for slot (also in floating point). -/

/-! ### Vector2D -/

/-- `Vector2D.from_dict(x.to_dict())` is `x`, slot for slot (no arithmetic is performed). -/
theorem v2_dict_roundtrip_eq (x : V2 α) : v2_dict_roundtrip x = x := rfl

/-- `Vector2D.from_array(x.to_array())` is `x`, slot for slot (no arithmetic is performed). -/
theorem v2_array_roundtrip_eq (x : V2 α) : v2_array_roundtrip x = x := rfl

/-- `Vector2D.duplicate()` is the same object, slot for slot. -/
theorem v2_copy_eq (x : V2 α) : v2_copy x = x := rfl

/-- `Vector2D.__eq__` returns `True` exactly when all defining coordinates are equal. -/
theorem v2_eq_iff (x y : V2 α) : v2_eq x y = true ↔ x = y := by
  simp only [v2_eq, decide_eq_true_eq, v2_ext_iff, and_assoc] <;> tauto

/-- `==` on `Vector2D` is reflexive. -/
theorem v2_eq_refl (x : V2 α) : v2_eq x x = true := (v2_eq_iff x x).2 rfl

/-- `==` on `Vector2D` is symmetric. -/
theorem v2_eq_symm (x y : V2 α) : v2_eq x y = v2_eq y x := by
  rw [Bool.eq_iff_iff, v2_eq_iff, v2_eq_iff]; exact eq_comm

/-- `==` on `Vector2D` is transitive. -/
theorem v2_eq_trans (x y z : V2 α) (h1 : v2_eq x y = true) (h2 : v2_eq y z = true) :
    v2_eq x z = true :=
  (v2_eq_iff x z).2 (((v2_eq_iff x y).1 h1).trans ((v2_eq_iff y z).1 h2))

/-- Two `Vector2D` with any differing defining coordinate compare unequal. -/
theorem v2_ne_of_coordinate_differs (x y : V2 α)
    (h : x.x ≠ y.x ∨ x.y ≠ y.y) :
    v2_eq x y = false := by
  rw [Bool.eq_false_iff]; intro he
  have := (v2_eq_iff x y).1 he; subst this; simp at h

/-- `Vector2D.__eq__` returns `False` exactly when the two objects differ in some slot. -/
theorem v2_eq_false_iff (x y : V2 α) : v2_eq x y = false ↔ x ≠ y := by
  rw [Ne, ← v2_eq_iff, Bool.not_eq_true]

/-- `x.duplicate() == x` for `Vector2D`. -/
theorem v2_copy_eq_true (x : V2 α) : v2_eq (v2_copy x) x = true := by
  rw [v2_copy_eq]; exact v2_eq_refl x

/-- The generated `Vector2D.__eq__` is equality of the keys that `__hash__` hashes. -/
theorem v2_eq_iff_key (x y : V2 α) : v2_eq x y = true ↔ v2_key x = v2_key y := by
  simp only [v2_eq, decide_eq_true_eq, v2_key, Prod.mk.injEq, and_assoc] <;> tauto

/-- `x == y` implies `hash(x) == hash(y)` for `Vector2D`, whatever the hash function on keys
is (`__hash__` is `hash(self.__key())`). -/
theorem v2_hash_eq {H : Type} (h : α × α → H) (x y : V2 α)
    (he : v2_eq x y = true) : h (v2_key x) = h (v2_key y) := by
  rw [(v2_eq_iff_key x y).1 he]

/-- `hash(x.duplicate()) == hash(x)` for `Vector2D`. -/
theorem v2_copy_hash_eq {H : Type} (h : α × α → H) (x : V2 α) :
    h (v2_key (v2_copy x)) = h (v2_key x) := by
  rw [v2_copy_eq]

/-! ### Point2D -/

/-- `Point2D.from_dict(x.to_dict())` is `x`, slot for slot (no arithmetic is performed). -/
theorem p2_dict_roundtrip_eq (x : V2 α) : p2_dict_roundtrip x = x := rfl

/-- `Point2D.from_array(x.to_array())` is `x`, slot for slot (no arithmetic is performed). -/
theorem p2_array_roundtrip_eq (x : V2 α) : p2_array_roundtrip x = x := rfl

/-- `Point2D.duplicate()` is the same object, slot for slot. -/
theorem p2_copy_eq (x : V2 α) : p2_copy x = x := rfl

/-- `Point2D.__eq__` returns `True` exactly when all defining coordinates are equal. -/
theorem p2_eq_iff (x y : V2 α) : p2_eq x y = true ↔ x = y := by
  simp only [p2_eq, decide_eq_true_eq, v2_ext_iff, and_assoc] <;> tauto

/-- `==` on `Point2D` is reflexive. -/
theorem p2_eq_refl (x : V2 α) : p2_eq x x = true := (p2_eq_iff x x).2 rfl

/-- `==` on `Point2D` is symmetric. -/
theorem p2_eq_symm (x y : V2 α) : p2_eq x y = p2_eq y x := by
  rw [Bool.eq_iff_iff, p2_eq_iff, p2_eq_iff]; exact eq_comm

/-- `==` on `Point2D` is transitive. -/
theorem p2_eq_trans (x y z : V2 α) (h1 : p2_eq x y = true) (h2 : p2_eq y z = true) :
    p2_eq x z = true :=
  (p2_eq_iff x z).2 (((p2_eq_iff x y).1 h1).trans ((p2_eq_iff y z).1 h2))

/-- Two `Point2D` with any differing defining coordinate compare unequal. -/
theorem p2_ne_of_coordinate_differs (x y : V2 α)
    (h : x.x ≠ y.x ∨ x.y ≠ y.y) :
    p2_eq x y = false := by
  rw [Bool.eq_false_iff]; intro he
  have := (p2_eq_iff x y).1 he; subst this; simp at h

/-- `Point2D.__eq__` returns `False` exactly when the two objects differ in some slot. -/
theorem p2_eq_false_iff (x y : V2 α) : p2_eq x y = false ↔ x ≠ y := by
  rw [Ne, ← p2_eq_iff, Bool.not_eq_true]

/-- `x.duplicate() == x` for `Point2D`. -/
theorem p2_copy_eq_true (x : V2 α) : p2_eq (p2_copy x) x = true := by
  rw [p2_copy_eq]; exact p2_eq_refl x

/-- The generated `Point2D.__eq__` is equality of the keys that `__hash__` hashes. -/
theorem p2_eq_iff_key (x y : V2 α) : p2_eq x y = true ↔ v2_key x = v2_key y := by
  simp only [p2_eq, decide_eq_true_eq, v2_key, Prod.mk.injEq, and_assoc] <;> tauto

/-- `x == y` implies `hash(x) == hash(y)` for `Point2D`, whatever the hash function on keys
is (`__hash__` is `hash(self.__key())`). -/
theorem p2_hash_eq {H : Type} (h : α × α → H) (x y : V2 α)
    (he : p2_eq x y = true) : h (v2_key x) = h (v2_key y) := by
  rw [(p2_eq_iff_key x y).1 he]

/-- `hash(x.duplicate()) == hash(x)` for `Point2D`. -/
theorem p2_copy_hash_eq {H : Type} (h : α × α → H) (x : V2 α) :
    h (v2_key (p2_copy x)) = h (v2_key x) := by
  rw [p2_copy_eq]


/-- A `Point2D` and a `Vector2D` with equal coordinates compare equal BY DESIGN
(`Vector2D.__eq__` accepts both classes and compares the same key): the two generated comparison
kernels are the same function. -/
theorem point2_vector2_eq_by_design (x y : V2 α) : p2_eq x y = v2_eq x y := rfl

/-! ### Vector3D -/

/-- `Vector3D.from_dict(x.to_dict())` is `x`, slot for slot (no arithmetic is performed). -/
theorem v3_dict_roundtrip_eq (x : V3 α) : v3_dict_roundtrip x = x := rfl

/-- `Vector3D.from_array(x.to_array())` is `x`, slot for slot (no arithmetic is performed). -/
theorem v3_array_roundtrip_eq (x : V3 α) : v3_array_roundtrip x = x := rfl

/-- `Vector3D.duplicate()` is the same object, slot for slot. -/
theorem v3_copy_eq (x : V3 α) : v3_copy x = x := rfl

/-- `Vector3D.__eq__` returns `True` exactly when all defining coordinates are equal. -/
theorem v3_eq_iff (x y : V3 α) : v3_eq x y = true ↔ x = y := by
  simp only [v3_eq, decide_eq_true_eq, v3_ext_iff, and_assoc] <;> tauto

/-- `==` on `Vector3D` is reflexive. -/
theorem v3_eq_refl (x : V3 α) : v3_eq x x = true := (v3_eq_iff x x).2 rfl

/-- `==` on `Vector3D` is symmetric. -/
theorem v3_eq_symm (x y : V3 α) : v3_eq x y = v3_eq y x := by
  rw [Bool.eq_iff_iff, v3_eq_iff, v3_eq_iff]; exact eq_comm

/-- `==` on `Vector3D` is transitive. -/
theorem v3_eq_trans (x y z : V3 α) (h1 : v3_eq x y = true) (h2 : v3_eq y z = true) :
    v3_eq x z = true :=
  (v3_eq_iff x z).2 (((v3_eq_iff x y).1 h1).trans ((v3_eq_iff y z).1 h2))

/-- Two `Vector3D` with any differing defining coordinate compare unequal. -/
theorem v3_ne_of_coordinate_differs (x y : V3 α)
    (h : x.x ≠ y.x ∨ x.y ≠ y.y ∨ x.z ≠ y.z) :
    v3_eq x y = false := by
  rw [Bool.eq_false_iff]; intro he
  have := (v3_eq_iff x y).1 he; subst this; simp at h

/-- `Vector3D.__eq__` returns `False` exactly when the two objects differ in some slot. -/
theorem v3_eq_false_iff (x y : V3 α) : v3_eq x y = false ↔ x ≠ y := by
  rw [Ne, ← v3_eq_iff, Bool.not_eq_true]

/-- `x.duplicate() == x` for `Vector3D`. -/
theorem v3_copy_eq_true (x : V3 α) : v3_eq (v3_copy x) x = true := by
  rw [v3_copy_eq]; exact v3_eq_refl x

/-- The generated `Vector3D.__eq__` is equality of the keys that `__hash__` hashes. -/
theorem v3_eq_iff_key (x y : V3 α) : v3_eq x y = true ↔ v3_key x = v3_key y := by
  simp only [v3_eq, decide_eq_true_eq, v3_key, Prod.mk.injEq, and_assoc] <;> tauto

/-- `x == y` implies `hash(x) == hash(y)` for `Vector3D`, whatever the hash function on keys
is (`__hash__` is `hash(self.__key())`). -/
theorem v3_hash_eq {H : Type} (h : α × α × α → H) (x y : V3 α)
    (he : v3_eq x y = true) : h (v3_key x) = h (v3_key y) := by
  rw [(v3_eq_iff_key x y).1 he]

/-- `hash(x.duplicate()) == hash(x)` for `Vector3D`. -/
theorem v3_copy_hash_eq {H : Type} (h : α × α × α → H) (x : V3 α) :
    h (v3_key (v3_copy x)) = h (v3_key x) := by
  rw [v3_copy_eq]

/-! ### Point3D -/

/-- `Point3D.from_dict(x.to_dict())` is `x`, slot for slot (no arithmetic is performed). -/
theorem p3_dict_roundtrip_eq (x : V3 α) : p3_dict_roundtrip x = x := rfl

/-- `Point3D.from_array(x.to_array())` is `x`, slot for slot (no arithmetic is performed). -/
theorem p3_array_roundtrip_eq (x : V3 α) : p3_array_roundtrip x = x := rfl

/-- `Point3D.duplicate()` is the same object, slot for slot. -/
theorem p3_copy_eq (x : V3 α) : p3_copy x = x := rfl

/-- `Point3D.__eq__` returns `True` exactly when all defining coordinates are equal. -/
theorem p3_eq_iff (x y : V3 α) : p3_eq x y = true ↔ x = y := by
  simp only [p3_eq, decide_eq_true_eq, v3_ext_iff, and_assoc] <;> tauto

/-- `==` on `Point3D` is reflexive. -/
theorem p3_eq_refl (x : V3 α) : p3_eq x x = true := (p3_eq_iff x x).2 rfl

/-- `==` on `Point3D` is symmetric. -/
theorem p3_eq_symm (x y : V3 α) : p3_eq x y = p3_eq y x := by
  rw [Bool.eq_iff_iff, p3_eq_iff, p3_eq_iff]; exact eq_comm

/-- `==` on `Point3D` is transitive. -/
theorem p3_eq_trans (x y z : V3 α) (h1 : p3_eq x y = true) (h2 : p3_eq y z = true) :
    p3_eq x z = true :=
  (p3_eq_iff x z).2 (((p3_eq_iff x y).1 h1).trans ((p3_eq_iff y z).1 h2))

/-- Two `Point3D` with any differing defining coordinate compare unequal. -/
theorem p3_ne_of_coordinate_differs (x y : V3 α)
    (h : x.x ≠ y.x ∨ x.y ≠ y.y ∨ x.z ≠ y.z) :
    p3_eq x y = false := by
  rw [Bool.eq_false_iff]; intro he
  have := (p3_eq_iff x y).1 he; subst this; simp at h

/-- `Point3D.__eq__` returns `False` exactly when the two objects differ in some slot. -/
theorem p3_eq_false_iff (x y : V3 α) : p3_eq x y = false ↔ x ≠ y := by
  rw [Ne, ← p3_eq_iff, Bool.not_eq_true]

/-- `x.duplicate() == x` for `Point3D`. -/
theorem p3_copy_eq_true (x : V3 α) : p3_eq (p3_copy x) x = true := by
  rw [p3_copy_eq]; exact p3_eq_refl x

/-- The generated `Point3D.__eq__` is equality of the keys that `__hash__` hashes. -/
theorem p3_eq_iff_key (x y : V3 α) : p3_eq x y = true ↔ v3_key x = v3_key y := by
  simp only [p3_eq, decide_eq_true_eq, v3_key, Prod.mk.injEq, and_assoc] <;> tauto

/-- `x == y` implies `hash(x) == hash(y)` for `Point3D`, whatever the hash function on keys
is (`__hash__` is `hash(self.__key())`). -/
theorem p3_hash_eq {H : Type} (h : α × α × α → H) (x y : V3 α)
    (he : p3_eq x y = true) : h (v3_key x) = h (v3_key y) := by
  rw [(p3_eq_iff_key x y).1 he]

/-- `hash(x.duplicate()) == hash(x)` for `Point3D`. -/
theorem p3_copy_hash_eq {H : Type} (h : α × α × α → H) (x : V3 α) :
    h (v3_key (p3_copy x)) = h (v3_key x) := by
  rw [p3_copy_eq]


/-- A `Point3D` and a `Vector3D` with equal coordinates compare equal BY DESIGN: the two generated
comparison kernels are the same function. -/
theorem point3_vector3_eq_by_design (x y : V3 α) : p3_eq x y = v3_eq x y := rfl

/-! ## B. Segments and rays

Slots `p` (base point) and `v` (direction).  `to_dict` stores `p` and `v`; `LineSegment.to_array`
stores the two end points `p`, `p + v` (rays store `p`, `v`). -/

/-! ### LineSegment2D -/

/-- `LineSegment2D.from_dict(x.to_dict())` is `x`, slot for slot (no arithmetic is performed). -/
theorem seg2_dict_roundtrip_eq (x : LR2 α) : seg2_dict_roundtrip x = x := rfl

/-- `LineSegment2D.from_array(x.to_array())`, exact shape: `to_array` stores the two END POINTS `p` and
`p2 = p + v`; `from_array` copies `p` and rebuilds the direction as `p2 - p`.  This statement uses no
law of arithmetic (both sides are the same expression), so it also describes the floating point
computation: the base point is reproduced exactly and the direction is literally `(p + v) - p`,
which in floating point may differ from `v` in the last bit. -/
theorem seg2_array_roundtrip_shape (x : LR2 α) :
    (seg2_array_roundtrip x).p = x.p ∧
    (seg2_array_roundtrip x).v = V2.sub (V2.add x.p x.v) x.p := ⟨rfl, rfl⟩

/-- `LineSegment2D.from_array(x.to_array())` is `x` in exact arithmetic.  Unlike every other round trip in
this file this needs a field law (`(p + v) - p = v`, closed by `ring`): in floating point the
direction may drift in the last bit while the base point is reproduced exactly
(`seg2_array_roundtrip_shape`). -/
theorem seg2_array_roundtrip_eq (x : LR2 α) : seg2_array_roundtrip x = x := by
  apply (lr2_ext_iff _ _).2
  refine ⟨rfl, ?_⟩
  apply V2.ext' <;> simp only [seg2_array_roundtrip] <;> ring

/-- End-point form of the array round trip: the start point is the stored one (copied, no
arithmetic) and the end point `p + v` of the rebuilt segment is the end point of the original (in
exact arithmetic; this is the only place where cancellation is used). -/
theorem seg2_array_roundtrip_endpoints (x : LR2 α) :
    (seg2_array_roundtrip x).p = x.p ∧
    V2.add (seg2_array_roundtrip x).p (seg2_array_roundtrip x).v = V2.add x.p x.v := by
  refine ⟨rfl, ?_⟩
  apply V2.ext' <;> simp only [seg2_array_roundtrip, V2.add] <;> ring

/-- `LineSegment2D.duplicate()` is the same object, slot for slot. -/
theorem seg2_copy_eq (x : LR2 α) : seg2_copy x = x := rfl

/-- `LineSegment2D.__eq__` returns `True` exactly when all defining coordinates are equal. -/
theorem seg2_eq_iff (x y : LR2 α) : seg2_eq x y = true ↔ x = y := by
  simp only [seg2_eq, decide_eq_true_eq, lr2_ext_iff, v2_ext_iff, and_assoc] <;> tauto

/-- `==` on `LineSegment2D` is reflexive. -/
theorem seg2_eq_refl (x : LR2 α) : seg2_eq x x = true := (seg2_eq_iff x x).2 rfl

/-- `==` on `LineSegment2D` is symmetric. -/
theorem seg2_eq_symm (x y : LR2 α) : seg2_eq x y = seg2_eq y x := by
  rw [Bool.eq_iff_iff, seg2_eq_iff, seg2_eq_iff]; exact eq_comm

/-- `==` on `LineSegment2D` is transitive. -/
theorem seg2_eq_trans (x y z : LR2 α) (h1 : seg2_eq x y = true) (h2 : seg2_eq y z = true) :
    seg2_eq x z = true :=
  (seg2_eq_iff x z).2 (((seg2_eq_iff x y).1 h1).trans ((seg2_eq_iff y z).1 h2))

/-- Two `LineSegment2D` with any differing defining coordinate compare unequal. -/
theorem seg2_ne_of_coordinate_differs (x y : LR2 α)
    (h : x.p.x ≠ y.p.x ∨ x.p.y ≠ y.p.y ∨ x.v.x ≠ y.v.x ∨ x.v.y ≠ y.v.y) :
    seg2_eq x y = false := by
  rw [Bool.eq_false_iff]; intro he
  have := (seg2_eq_iff x y).1 he; subst this; simp at h

/-- `LineSegment2D.__eq__` returns `False` exactly when the two objects differ in some slot. -/
theorem seg2_eq_false_iff (x y : LR2 α) : seg2_eq x y = false ↔ x ≠ y := by
  rw [Ne, ← seg2_eq_iff, Bool.not_eq_true]

/-- `x.duplicate() == x` for `LineSegment2D`. -/
theorem seg2_copy_eq_true (x : LR2 α) : seg2_eq (seg2_copy x) x = true := by
  rw [seg2_copy_eq]; exact seg2_eq_refl x

/-- The generated `LineSegment2D.__eq__` is equality of the keys that `__hash__` hashes. -/
theorem seg2_eq_iff_key (x y : LR2 α) : seg2_eq x y = true ↔ lr2_key x = lr2_key y := by
  simp only [seg2_eq, decide_eq_true_eq, lr2_key, v2_key, Prod.mk.injEq, and_assoc] <;> tauto

/-- `x == y` implies `hash(x) == hash(y)` for `LineSegment2D`, whatever the hash function on keys
is (`__hash__` is `hash(self.__key())`). -/
theorem seg2_hash_eq {H : Type} (h : (α × α) × (α × α) → H) (x y : LR2 α)
    (he : seg2_eq x y = true) : h (lr2_key x) = h (lr2_key y) := by
  rw [(seg2_eq_iff_key x y).1 he]

/-- `hash(x.duplicate()) == hash(x)` for `LineSegment2D`. -/
theorem seg2_copy_hash_eq {H : Type} (h : (α × α) × (α × α) → H) (x : LR2 α) :
    h (lr2_key (seg2_copy x)) = h (lr2_key x) := by
  rw [seg2_copy_eq]

/-! ### Ray2D -/

/-- `Ray2D.from_dict(x.to_dict())` is `x`, slot for slot (no arithmetic is performed). -/
theorem ray2_dict_roundtrip_eq (x : LR2 α) : ray2_dict_roundtrip x = x := rfl

/-- `Ray2D.from_array(x.to_array())` is `x`, slot for slot (no arithmetic is performed). -/
theorem ray2_array_roundtrip_eq (x : LR2 α) : ray2_array_roundtrip x = x := rfl

/-- `Ray2D.duplicate()` is the same object, slot for slot. -/
theorem ray2_copy_eq (x : LR2 α) : ray2_copy x = x := rfl

/-- `Ray2D.__eq__` returns `True` exactly when all defining coordinates are equal. -/
theorem ray2_eq_iff (x y : LR2 α) : ray2_eq x y = true ↔ x = y := by
  simp only [ray2_eq, decide_eq_true_eq, lr2_ext_iff, v2_ext_iff, and_assoc] <;> tauto

/-- `==` on `Ray2D` is reflexive. -/
theorem ray2_eq_refl (x : LR2 α) : ray2_eq x x = true := (ray2_eq_iff x x).2 rfl

/-- `==` on `Ray2D` is symmetric. -/
theorem ray2_eq_symm (x y : LR2 α) : ray2_eq x y = ray2_eq y x := by
  rw [Bool.eq_iff_iff, ray2_eq_iff, ray2_eq_iff]; exact eq_comm

/-- `==` on `Ray2D` is transitive. -/
theorem ray2_eq_trans (x y z : LR2 α) (h1 : ray2_eq x y = true) (h2 : ray2_eq y z = true) :
    ray2_eq x z = true :=
  (ray2_eq_iff x z).2 (((ray2_eq_iff x y).1 h1).trans ((ray2_eq_iff y z).1 h2))

/-- Two `Ray2D` with any differing defining coordinate compare unequal. -/
theorem ray2_ne_of_coordinate_differs (x y : LR2 α)
    (h : x.p.x ≠ y.p.x ∨ x.p.y ≠ y.p.y ∨ x.v.x ≠ y.v.x ∨ x.v.y ≠ y.v.y) :
    ray2_eq x y = false := by
  rw [Bool.eq_false_iff]; intro he
  have := (ray2_eq_iff x y).1 he; subst this; simp at h

/-- `Ray2D.__eq__` returns `False` exactly when the two objects differ in some slot. -/
theorem ray2_eq_false_iff (x y : LR2 α) : ray2_eq x y = false ↔ x ≠ y := by
  rw [Ne, ← ray2_eq_iff, Bool.not_eq_true]

/-- `x.duplicate() == x` for `Ray2D`. -/
theorem ray2_copy_eq_true (x : LR2 α) : ray2_eq (ray2_copy x) x = true := by
  rw [ray2_copy_eq]; exact ray2_eq_refl x

/-- The generated `Ray2D.__eq__` is equality of the keys that `__hash__` hashes. -/
theorem ray2_eq_iff_key (x y : LR2 α) : ray2_eq x y = true ↔ lr2_key x = lr2_key y := by
  simp only [ray2_eq, decide_eq_true_eq, lr2_key, v2_key, Prod.mk.injEq, and_assoc] <;> tauto

/-- `x == y` implies `hash(x) == hash(y)` for `Ray2D`, whatever the hash function on keys
is (`__hash__` is `hash(self.__key())`). -/
theorem ray2_hash_eq {H : Type} (h : (α × α) × (α × α) → H) (x y : LR2 α)
    (he : ray2_eq x y = true) : h (lr2_key x) = h (lr2_key y) := by
  rw [(ray2_eq_iff_key x y).1 he]

/-- `hash(x.duplicate()) == hash(x)` for `Ray2D`. -/
theorem ray2_copy_hash_eq {H : Type} (h : (α × α) × (α × α) → H) (x : LR2 α) :
    h (lr2_key (ray2_copy x)) = h (lr2_key x) := by
  rw [ray2_copy_eq]

/-! ### LineSegment3D -/

/-- `LineSegment3D.from_dict(x.to_dict())` is `x`, slot for slot (no arithmetic is performed). -/
theorem seg3_dict_roundtrip_eq (x : LR3 α) : seg3_dict_roundtrip x = x := rfl

/-- `LineSegment3D.from_array(x.to_array())`, exact shape: `to_array` stores the two END POINTS `p` and
`p2 = p + v`; `from_array` copies `p` and rebuilds the direction as `p2 - p`.  This statement uses no
law of arithmetic (both sides are the same expression), so it also describes the floating point
computation: the base point is reproduced exactly and the direction is literally `(p + v) - p`,
which in floating point may differ from `v` in the last bit. -/
theorem seg3_array_roundtrip_shape (x : LR3 α) :
    (seg3_array_roundtrip x).p = x.p ∧
    (seg3_array_roundtrip x).v = V3.sub (V3.add x.p x.v) x.p := ⟨rfl, rfl⟩

/-- `LineSegment3D.from_array(x.to_array())` is `x` in exact arithmetic.  Unlike every other round trip in
this file this needs a field law (`(p + v) - p = v`, closed by `ring`): in floating point the
direction may drift in the last bit while the base point is reproduced exactly
(`seg3_array_roundtrip_shape`). -/
theorem seg3_array_roundtrip_eq (x : LR3 α) : seg3_array_roundtrip x = x := by
  apply (lr3_ext_iff _ _).2
  refine ⟨rfl, ?_⟩
  apply V3.ext' <;> simp only [seg3_array_roundtrip] <;> ring

/-- End-point form of the array round trip: the start point is the stored one (copied, no
arithmetic) and the end point `p + v` of the rebuilt segment is the end point of the original (in
exact arithmetic; this is the only place where cancellation is used). -/
theorem seg3_array_roundtrip_endpoints (x : LR3 α) :
    (seg3_array_roundtrip x).p = x.p ∧
    V3.add (seg3_array_roundtrip x).p (seg3_array_roundtrip x).v = V3.add x.p x.v := by
  refine ⟨rfl, ?_⟩
  apply V3.ext' <;> simp only [seg3_array_roundtrip, V3.add] <;> ring

/-- `LineSegment3D.duplicate()` is the same object, slot for slot. -/
theorem seg3_copy_eq (x : LR3 α) : seg3_copy x = x := rfl

/-- `LineSegment3D.__eq__` returns `True` exactly when all defining coordinates are equal. -/
theorem seg3_eq_iff (x y : LR3 α) : seg3_eq x y = true ↔ x = y := by
  simp only [seg3_eq, decide_eq_true_eq, lr3_ext_iff, v3_ext_iff, and_assoc] <;> tauto

/-- `==` on `LineSegment3D` is reflexive. -/
theorem seg3_eq_refl (x : LR3 α) : seg3_eq x x = true := (seg3_eq_iff x x).2 rfl

/-- `==` on `LineSegment3D` is symmetric. -/
theorem seg3_eq_symm (x y : LR3 α) : seg3_eq x y = seg3_eq y x := by
  rw [Bool.eq_iff_iff, seg3_eq_iff, seg3_eq_iff]; exact eq_comm

/-- `==` on `LineSegment3D` is transitive. -/
theorem seg3_eq_trans (x y z : LR3 α) (h1 : seg3_eq x y = true) (h2 : seg3_eq y z = true) :
    seg3_eq x z = true :=
  (seg3_eq_iff x z).2 (((seg3_eq_iff x y).1 h1).trans ((seg3_eq_iff y z).1 h2))

/-- Two `LineSegment3D` with any differing defining coordinate compare unequal. -/
theorem seg3_ne_of_coordinate_differs (x y : LR3 α)
    (h : x.p.x ≠ y.p.x ∨ x.p.y ≠ y.p.y ∨ x.p.z ≠ y.p.z ∨ x.v.x ≠ y.v.x ∨ x.v.y ≠ y.v.y ∨ x.v.z ≠ y.v.z) :
    seg3_eq x y = false := by
  rw [Bool.eq_false_iff]; intro he
  have := (seg3_eq_iff x y).1 he; subst this; simp at h

/-- `LineSegment3D.__eq__` returns `False` exactly when the two objects differ in some slot. -/
theorem seg3_eq_false_iff (x y : LR3 α) : seg3_eq x y = false ↔ x ≠ y := by
  rw [Ne, ← seg3_eq_iff, Bool.not_eq_true]

/-- `x.duplicate() == x` for `LineSegment3D`. -/
theorem seg3_copy_eq_true (x : LR3 α) : seg3_eq (seg3_copy x) x = true := by
  rw [seg3_copy_eq]; exact seg3_eq_refl x

/-- The generated `LineSegment3D.__eq__` is equality of the keys that `__hash__` hashes. -/
theorem seg3_eq_iff_key (x y : LR3 α) : seg3_eq x y = true ↔ lr3_key x = lr3_key y := by
  simp only [seg3_eq, decide_eq_true_eq, lr3_key, v3_key, Prod.mk.injEq, and_assoc] <;> tauto

/-- `x == y` implies `hash(x) == hash(y)` for `LineSegment3D`, whatever the hash function on keys
is (`__hash__` is `hash(self.__key())`). -/
theorem seg3_hash_eq {H : Type} (h : (α × α × α) × (α × α × α) → H) (x y : LR3 α)
    (he : seg3_eq x y = true) : h (lr3_key x) = h (lr3_key y) := by
  rw [(seg3_eq_iff_key x y).1 he]

/-- `hash(x.duplicate()) == hash(x)` for `LineSegment3D`. -/
theorem seg3_copy_hash_eq {H : Type} (h : (α × α × α) × (α × α × α) → H) (x : LR3 α) :
    h (lr3_key (seg3_copy x)) = h (lr3_key x) := by
  rw [seg3_copy_eq]

/-! ### Ray3D -/

/-- `Ray3D.from_dict(x.to_dict())` is `x`, slot for slot (no arithmetic is performed). -/
theorem ray3_dict_roundtrip_eq (x : LR3 α) : ray3_dict_roundtrip x = x := rfl

/-- `Ray3D.from_array(x.to_array())` is `x`, slot for slot (no arithmetic is performed). -/
theorem ray3_array_roundtrip_eq (x : LR3 α) : ray3_array_roundtrip x = x := rfl

/-- `Ray3D.duplicate()` is the same object, slot for slot. -/
theorem ray3_copy_eq (x : LR3 α) : ray3_copy x = x := rfl

/-- `Ray3D.__eq__` returns `True` exactly when all defining coordinates are equal. -/
theorem ray3_eq_iff (x y : LR3 α) : ray3_eq x y = true ↔ x = y := by
  simp only [ray3_eq, decide_eq_true_eq, lr3_ext_iff, v3_ext_iff, and_assoc] <;> tauto

/-- `==` on `Ray3D` is reflexive. -/
theorem ray3_eq_refl (x : LR3 α) : ray3_eq x x = true := (ray3_eq_iff x x).2 rfl

/-- `==` on `Ray3D` is symmetric. -/
theorem ray3_eq_symm (x y : LR3 α) : ray3_eq x y = ray3_eq y x := by
  rw [Bool.eq_iff_iff, ray3_eq_iff, ray3_eq_iff]; exact eq_comm

/-- `==` on `Ray3D` is transitive. -/
theorem ray3_eq_trans (x y z : LR3 α) (h1 : ray3_eq x y = true) (h2 : ray3_eq y z = true) :
    ray3_eq x z = true :=
  (ray3_eq_iff x z).2 (((ray3_eq_iff x y).1 h1).trans ((ray3_eq_iff y z).1 h2))

/-- Two `Ray3D` with any differing defining coordinate compare unequal. -/
theorem ray3_ne_of_coordinate_differs (x y : LR3 α)
    (h : x.p.x ≠ y.p.x ∨ x.p.y ≠ y.p.y ∨ x.p.z ≠ y.p.z ∨ x.v.x ≠ y.v.x ∨ x.v.y ≠ y.v.y ∨ x.v.z ≠ y.v.z) :
    ray3_eq x y = false := by
  rw [Bool.eq_false_iff]; intro he
  have := (ray3_eq_iff x y).1 he; subst this; simp at h

/-- `Ray3D.__eq__` returns `False` exactly when the two objects differ in some slot. -/
theorem ray3_eq_false_iff (x y : LR3 α) : ray3_eq x y = false ↔ x ≠ y := by
  rw [Ne, ← ray3_eq_iff, Bool.not_eq_true]

/-- `x.duplicate() == x` for `Ray3D`. -/
theorem ray3_copy_eq_true (x : LR3 α) : ray3_eq (ray3_copy x) x = true := by
  rw [ray3_copy_eq]; exact ray3_eq_refl x

/-- The generated `Ray3D.__eq__` is equality of the keys that `__hash__` hashes. -/
theorem ray3_eq_iff_key (x y : LR3 α) : ray3_eq x y = true ↔ lr3_key x = lr3_key y := by
  simp only [ray3_eq, decide_eq_true_eq, lr3_key, v3_key, Prod.mk.injEq, and_assoc] <;> tauto

/-- `x == y` implies `hash(x) == hash(y)` for `Ray3D`, whatever the hash function on keys
is (`__hash__` is `hash(self.__key())`). -/
theorem ray3_hash_eq {H : Type} (h : (α × α × α) × (α × α × α) → H) (x y : LR3 α)
    (he : ray3_eq x y = true) : h (lr3_key x) = h (lr3_key y) := by
  rw [(ray3_eq_iff_key x y).1 he]

/-- `hash(x.duplicate()) == hash(x)` for `Ray3D`. -/
theorem ray3_copy_hash_eq {H : Type} (h : (α × α × α) × (α × α × α) → H) (x : LR3 α) :
    h (lr3_key (ray3_copy x)) = h (lr3_key x) := by
  rw [ray3_copy_eq]

/-! ## C. Plane

`Plane.to_dict` stores `n`, `o`, `x`; `Plane.from_dict` calls the constructor, which RE-NORMALISES
`n` and `x` (dividing by `M.sqrt (v·v)`) and recomputes `y = n × x` and `k = n·o`.  So the round trip
is the identity only on planes whose slots satisfy the constructor's invariants (`PlaneValid`), and
only if `M.sqrt 1 = 1`; without these the origin is reproduced exactly and `n`, `x` come back as
their normalisations — the "unit-vector fields equal to within rounding" clause of C13 (the numeric
size of that perturbation in floating point is measured by the harness, not here).

`Plane.__copy__` (after the library fix) copies all five slots verbatim: `plane_copy M x = x` with
NO hypothesis on `M` or `x`, although the generated kernel still evaluates the constructor in dead
`let`s. -/

/-- `Plane.from_dict(pl.to_dict())` is literally the constructor `Plane(n, o, x)` applied to the
stored normal, origin and x-axis. -/
theorem plane_dict_roundtrip_is_init (M : MathOps α) (x : PlaneS α) :
    plane_dict_roundtrip M x = plane_init_x M x.n x.o x.x := rfl

/-- What the dictionary round trip of a plane preserves with NO assumption: the origin is
identical; the normal and the x-axis are replaced by their normalisations; `y` and `k` are the
derived quantities `n' × x'` and `n'·o` of the new normal / x-axis. -/
theorem plane_dict_roundtrip_fields (M : MathOps α) (x : PlaneS α) :
    (plane_dict_roundtrip M x).o = x.o ∧
    (plane_dict_roundtrip M x).n = v3_normalize M x.n ∧
    (plane_dict_roundtrip M x).x = v3_normalize M x.x ∧
    (plane_dict_roundtrip M x).y =
      V3.cross (plane_dict_roundtrip M x).n (plane_dict_roundtrip M x).x ∧
    (plane_dict_roundtrip M x).k = V3.dot (plane_dict_roundtrip M x).n x.o := by
  refine ⟨rfl, rfl, rfl, ?_, rfl⟩
  apply V3.ext' <;> simp only [plane_dict_roundtrip, V3.cross] <;> ring

/-- If the stored normal and x-axis are unit vectors (and `sqrt 1 = 1`) the dictionary round trip
reproduces all three DEFINING fields `n`, `o`, `x` exactly. -/
theorem plane_dict_roundtrip_defining (M : MathOps α) (h1 : M.sqrt 1 = 1) (x : PlaneS α)
    (hn : V3.normSq x.n = 1) (hx : V3.normSq x.x = 1) :
    (plane_dict_roundtrip M x).n = x.n ∧ (plane_dict_roundtrip M x).o = x.o ∧
    (plane_dict_roundtrip M x).x = x.x := by
  obtain ⟨ho, hn', hx', _, _⟩ := plane_dict_roundtrip_fields M x
  exact ⟨hn'.trans (v3_normalize_unit M h1 x.n hn), ho, hx'.trans (v3_normalize_unit M h1 x.x hx)⟩

/-- `Plane.from_dict(pl.to_dict())` is `pl`, slot for slot, for every plane satisfying the
constructor's invariants (unit `n`, unit `x ⟂ n`, `y = n × x`, `k = n·o`), given `sqrt 1 = 1`. -/
theorem plane_dict_roundtrip_eq (M : MathOps α) (h1 : M.sqrt 1 = 1) (x : PlaneS α)
    (hv : PlaneValid x) : plane_dict_roundtrip M x = x := by
  obtain ⟨ho, _, _, hy, hk⟩ := plane_dict_roundtrip_fields M x
  obtain ⟨hn, _, hx⟩ := plane_dict_roundtrip_defining M h1 x hv.n_unit hv.x_unit
  apply plane_ext hn ho _ hx
  · rw [hy, hn, hx, hv.y_eq]
  · rw [hk, hn, hv.k_eq]

/-- `Plane.duplicate()` is the same plane, slot for slot (`n`, `o`, `k`, `x`, `y` all copied
verbatim) — for EVERY stored plane and with no assumption on `sqrt` (the repaired defect: the copy
used to go through the re-normalising constructor). -/
theorem plane_copy_eq (M : MathOps α) (x : PlaneS α) : plane_copy M x = x := rfl

/-- `Plane.__eq__` returns `True` exactly when normal, origin and x-axis are equal. -/
theorem plane_eq_iff (x y : PlaneS α) :
    plane_eq x y = true ↔ x.n = y.n ∧ x.o = y.o ∧ x.x = y.x := by
  simp only [plane_eq, decide_eq_true_eq, v3_ext_iff, and_assoc] <;> tauto

/-- For planes satisfying the constructor's invariants, `==` is equality of ALL slots (the derived
`k` and `y` are functions of `n`, `o`, `x`). -/
theorem plane_eq_iff_of_valid (x y : PlaneS α) (hx : PlaneValid x) (hy : PlaneValid y) :
    plane_eq x y = true ↔ x = y := by
  rw [plane_eq_iff]
  constructor
  · rintro ⟨hn, ho, hxx⟩; exact planeValid_ext hx hy hn ho hxx
  · rintro rfl; exact ⟨rfl, rfl, rfl⟩

/-- `==` on `Plane` is reflexive. -/
theorem plane_eq_refl (x : PlaneS α) : plane_eq x x = true :=
  (plane_eq_iff x x).2 ⟨rfl, rfl, rfl⟩

/-- `==` on `Plane` is symmetric. -/
theorem plane_eq_symm (x y : PlaneS α) : plane_eq x y = plane_eq y x := by
  rw [Bool.eq_iff_iff, plane_eq_iff, plane_eq_iff]
  constructor <;> rintro ⟨h1, h2, h3⟩ <;> exact ⟨h1.symm, h2.symm, h3.symm⟩

/-- `==` on `Plane` is transitive. -/
theorem plane_eq_trans (x y z : PlaneS α) (h1 : plane_eq x y = true) (h2 : plane_eq y z = true) :
    plane_eq x z = true := by
  rw [plane_eq_iff] at *
  exact ⟨h1.1.trans h2.1, h1.2.1.trans h2.2.1, h1.2.2.trans h2.2.2⟩

/-- Two planes with any differing coordinate of the normal, the origin or the x-axis compare
unequal. -/
theorem plane_ne_of_coordinate_differs (x y : PlaneS α)
    (h : x.n.x ≠ y.n.x ∨ x.n.y ≠ y.n.y ∨ x.n.z ≠ y.n.z ∨ x.o.x ≠ y.o.x ∨ x.o.y ≠ y.o.y ∨
      x.o.z ≠ y.o.z ∨ x.x.x ≠ y.x.x ∨ x.x.y ≠ y.x.y ∨ x.x.z ≠ y.x.z) :
    plane_eq x y = false := by
  rw [Bool.eq_false_iff]; intro he
  obtain ⟨h1, h2, h3⟩ := (plane_eq_iff x y).1 he
  simp [h1, h2, h3] at h

/-- `pl.duplicate() == pl` for EVERY plane (no validity, no assumption on `sqrt`). -/
theorem plane_copy_eq_true (M : MathOps α) (x : PlaneS α) : plane_eq (plane_copy M x) x = true := by
  rw [plane_copy_eq]; exact plane_eq_refl x

/-- `Plane.from_dict(pl.to_dict()) == pl` whenever the stored normal and x-axis are unit vectors
(given `sqrt 1 = 1`). -/
theorem plane_dict_roundtrip_eq_true (M : MathOps α) (h1 : M.sqrt 1 = 1) (x : PlaneS α)
    (hn : V3.normSq x.n = 1) (hx : V3.normSq x.x = 1) :
    plane_eq (plane_dict_roundtrip M x) x = true :=
  (plane_eq_iff _ _).2 (plane_dict_roundtrip_defining M h1 x hn hx)

/-- The generated `Plane.__eq__` is equality of the keys `(n, o, x)` that `__hash__` hashes. -/
theorem plane_eq_iff_key (x y : PlaneS α) : plane_eq x y = true ↔ plane_key x = plane_key y := by
  simp only [plane_eq, decide_eq_true_eq, plane_key, v3_key, Prod.mk.injEq, and_assoc] <;> tauto

/-- `x == y` implies `hash(x) == hash(y)` for `Plane`, whatever the hash function on keys is. -/
theorem plane_hash_eq {H : Type} (h : (α × α × α) × (α × α × α) × (α × α × α) → H)
    (x y : PlaneS α) (he : plane_eq x y = true) : h (plane_key x) = h (plane_key y) := by
  rw [(plane_eq_iff_key x y).1 he]

/-- `hash(pl.duplicate()) == hash(pl)` for every plane. -/
theorem plane_copy_hash_eq {H : Type} (h : (α × α × α) × (α × α × α) × (α × α × α) → H)
    (M : MathOps α) (x : PlaneS α) : h (plane_key (plane_copy M x)) = h (plane_key x) := by
  rw [plane_copy_eq]

/-! ## D. Arcs

`Arc2D` stores the defining `c`, `r`, `a1`, `a2` and CACHES `cos a1`, `sin a1`, `cos a2`, `sin a2`.
`to_dict` stores the defining fields only; `from_dict` and `__copy__` both go through the
constructor, which recomputes the caches with `M.cos` / `M.sin`.  Hence: the defining fields are
reproduced exactly with no assumption, the result is always cache-coherent, and the round trip /
copy is the identity slot for slot exactly on cache-coherent arcs (`Arc2Coherent`, the
constructor's invariant).  `==` and `hash` look at the defining fields only, so
`a.duplicate() == a` holds unconditionally.

`Arc3D` stores a `Plane` and an `Arc2D` about the plane origin `(0, 0)` with the same radius and
angles.  `Arc3D.__copy__` hands the SAME stored plane to the constructor (`Arc3D.__init__` keeps the
plane object as it is), so the plane slots of the copy are identical with no assumption; `from_dict`
rebuilds the plane through `Plane.from_dict` (section C). -/

/-! ### Arc2D -/

/-- `Arc2D.from_dict(a.to_dict())` is literally the constructor applied to the stored
`c`, `r`, `a1`, `a2`. -/
theorem arc2_dict_roundtrip_is_init (M : MathOps α) (x : Arc2S α) :
    arc2_dict_roundtrip M x = arc2_init M x.c x.r x.a1 x.a2 := rfl

/-- The dictionary round trip of an `Arc2D` reproduces all defining fields (centre, radius, both
angles) exactly, with no assumption, and yields a cache-coherent arc. -/
theorem arc2_dict_roundtrip_fields (M : MathOps α) (x : Arc2S α) :
    (arc2_dict_roundtrip M x).c = x.c ∧ (arc2_dict_roundtrip M x).r = x.r ∧
    (arc2_dict_roundtrip M x).a1 = x.a1 ∧ (arc2_dict_roundtrip M x).a2 = x.a2 ∧
    Arc2Coherent M (arc2_dict_roundtrip M x) :=
  ⟨rfl, rfl, rfl, rfl, rfl, rfl, rfl, rfl⟩

/-- `Arc2D.from_dict(a.to_dict())` is `a`, slot for slot (caches included), for every arc whose
cached cosines / sines are those of its angles. -/
theorem arc2_dict_roundtrip_eq (M : MathOps α) (x : Arc2S α) (hc : Arc2Coherent M x) :
    arc2_dict_roundtrip M x = x := by
  obtain ⟨h1, h2, h3, h4⟩ := hc
  exact arc2_ext rfl rfl rfl rfl h1.symm h2.symm h3.symm h4.symm

/-- `Arc2D.duplicate()` is literally the constructor applied to the stored `c`, `r`, `a1`, `a2`
(so it coincides with the dictionary round trip). -/
theorem arc2_copy_is_init (M : MathOps α) (x : Arc2S α) :
    arc2_copy M x = arc2_init M x.c x.r x.a1 x.a2 := rfl

/-- `Arc2D.duplicate()` reproduces all defining fields exactly, with no assumption, and yields a
cache-coherent arc. -/
theorem arc2_copy_fields (M : MathOps α) (x : Arc2S α) :
    (arc2_copy M x).c = x.c ∧ (arc2_copy M x).r = x.r ∧
    (arc2_copy M x).a1 = x.a1 ∧ (arc2_copy M x).a2 = x.a2 ∧
    Arc2Coherent M (arc2_copy M x) :=
  ⟨rfl, rfl, rfl, rfl, rfl, rfl, rfl, rfl⟩

/-- `Arc2D.duplicate()` is the same arc, slot for slot (caches included), for every cache-coherent
arc. -/
theorem arc2_copy_eq (M : MathOps α) (x : Arc2S α) (hc : Arc2Coherent M x) :
    arc2_copy M x = x :=
  arc2_dict_roundtrip_eq M x hc

/-- `Arc2D.__eq__` returns `True` exactly when centre, radius and both angles are equal (the
caches are not compared). -/
theorem arc2_eq_iff (x y : Arc2S α) :
    arc2_eq x y = true ↔ x.c = y.c ∧ x.r = y.r ∧ x.a1 = y.a1 ∧ x.a2 = y.a2 := by
  simp only [arc2_eq, decide_eq_true_eq, v2_ext_iff, and_assoc] <;> tauto

/-- For cache-coherent arcs `==` is equality of ALL slots. -/
theorem arc2_eq_iff_of_coherent (M : MathOps α) (x y : Arc2S α) (hx : Arc2Coherent M x)
    (hy : Arc2Coherent M y) : arc2_eq x y = true ↔ x = y := by
  rw [arc2_eq_iff]
  constructor
  · rintro ⟨hc, hr, h1, h2⟩
    obtain ⟨x1, x2, x3, x4⟩ := hx
    obtain ⟨y1, y2, y3, y4⟩ := hy
    apply arc2_ext hc hr h1 h2
    · rw [x1, y1, h1]
    · rw [x2, y2, h1]
    · rw [x3, y3, h2]
    · rw [x4, y4, h2]
  · rintro rfl; exact ⟨rfl, rfl, rfl, rfl⟩

/-- `==` on `Arc2D` is reflexive. -/
theorem arc2_eq_refl (x : Arc2S α) : arc2_eq x x = true :=
  (arc2_eq_iff x x).2 ⟨rfl, rfl, rfl, rfl⟩

/-- `==` on `Arc2D` is symmetric. -/
theorem arc2_eq_symm (x y : Arc2S α) : arc2_eq x y = arc2_eq y x := by
  rw [Bool.eq_iff_iff, arc2_eq_iff, arc2_eq_iff]
  constructor <;> rintro ⟨h1, h2, h3, h4⟩ <;> exact ⟨h1.symm, h2.symm, h3.symm, h4.symm⟩

/-- `==` on `Arc2D` is transitive. -/
theorem arc2_eq_trans (x y z : Arc2S α) (h1 : arc2_eq x y = true) (h2 : arc2_eq y z = true) :
    arc2_eq x z = true := by
  rw [arc2_eq_iff] at *
  obtain ⟨a1, a2, a3, a4⟩ := h1
  obtain ⟨b1, b2, b3, b4⟩ := h2
  exact ⟨a1.trans b1, a2.trans b2, a3.trans b3, a4.trans b4⟩

/-- Two `Arc2D` with any differing defining coordinate (centre, radius, an angle) compare
unequal. -/
theorem arc2_ne_of_coordinate_differs (x y : Arc2S α)
    (h : x.c.x ≠ y.c.x ∨ x.c.y ≠ y.c.y ∨ x.r ≠ y.r ∨ x.a1 ≠ y.a1 ∨ x.a2 ≠ y.a2) :
    arc2_eq x y = false := by
  rw [Bool.eq_false_iff]; intro he
  obtain ⟨h1, h2, h3, h4⟩ := (arc2_eq_iff x y).1 he
  simp [h1, h2, h3, h4] at h

/-- `a.duplicate() == a` for EVERY `Arc2D` (cache-coherent or not, any `cos` / `sin`). -/
theorem arc2_copy_eq_true (M : MathOps α) (x : Arc2S α) : arc2_eq (arc2_copy M x) x = true :=
  (arc2_eq_iff _ _).2 ⟨rfl, rfl, rfl, rfl⟩

/-- `Arc2D.from_dict(a.to_dict()) == a` for EVERY `Arc2D`. -/
theorem arc2_dict_roundtrip_eq_true (M : MathOps α) (x : Arc2S α) :
    arc2_eq (arc2_dict_roundtrip M x) x = true :=
  (arc2_eq_iff _ _).2 ⟨rfl, rfl, rfl, rfl⟩

/-- The generated `Arc2D.__eq__` is equality of the keys `(c, r, a1, a2)` that `__hash__`
hashes. -/
theorem arc2_eq_iff_key (x y : Arc2S α) : arc2_eq x y = true ↔ arc2_key x = arc2_key y := by
  simp only [arc2_eq, decide_eq_true_eq, arc2_key, v2_key, Prod.mk.injEq, and_assoc] <;> tauto

/-- `x == y` implies `hash(x) == hash(y)` for `Arc2D`, whatever the hash function on keys is. -/
theorem arc2_hash_eq {H : Type} (h : (α × α) × α × α × α → H) (x y : Arc2S α)
    (he : arc2_eq x y = true) : h (arc2_key x) = h (arc2_key y) := by
  rw [(arc2_eq_iff_key x y).1 he]

/-- `hash(a.duplicate()) == hash(a)` for every `Arc2D`. -/
theorem arc2_copy_hash_eq {H : Type} (h : (α × α) × α × α × α → H) (M : MathOps α)
    (x : Arc2S α) : h (arc2_key (arc2_copy M x)) = h (arc2_key x) :=
  arc2_hash_eq h _ _ (arc2_copy_eq_true M x)

/-! ### Arc3D -/

/-- Invariants of a constructed `Arc3D` other than those of its plane: the inner `Arc2D` is centred
at the plane origin `(0, 0)` and its cached cosines / sines are those of its angles. -/
def Arc3Canonical (M : MathOps α) (a : Arc3S α) : Prop :=
  a.arc2d.c = ⟨0, 0⟩ ∧ Arc2Coherent M a.arc2d

/-- `Arc3D.from_dict(a.to_dict())`: the plane is the dictionary round trip of the stored plane
(section C) and the inner arc is the `Arc2D` constructor at centre `(0, 0)` with the stored radius
and angles. -/
theorem arc3_dict_roundtrip_parts (M : MathOps α) (x : Arc3S α) :
    (arc3_dict_roundtrip M x).plane = plane_dict_roundtrip M x.plane ∧
    (arc3_dict_roundtrip M x).arc2d = arc2_init M ⟨0, 0⟩ x.arc2d.r x.arc2d.a1 x.arc2d.a2 :=
  ⟨rfl, rfl⟩

/-- What the dictionary round trip of an `Arc3D` preserves with NO assumption: plane origin,
radius and both angles are identical; the plane normal and x-axis are replaced by their
normalisations; the result satisfies the `Arc3D` invariants. -/
theorem arc3_dict_roundtrip_fields (M : MathOps α) (x : Arc3S α) :
    (arc3_dict_roundtrip M x).plane.o = x.plane.o ∧
    (arc3_dict_roundtrip M x).plane.n = v3_normalize M x.plane.n ∧
    (arc3_dict_roundtrip M x).plane.x = v3_normalize M x.plane.x ∧
    (arc3_dict_roundtrip M x).arc2d.r = x.arc2d.r ∧
    (arc3_dict_roundtrip M x).arc2d.a1 = x.arc2d.a1 ∧
    (arc3_dict_roundtrip M x).arc2d.a2 = x.arc2d.a2 ∧
    Arc3Canonical M (arc3_dict_roundtrip M x) :=
  ⟨rfl, rfl, rfl, rfl, rfl, rfl, rfl, rfl, rfl, rfl, rfl⟩

/-- `Arc3D.from_dict(a.to_dict())` is `a`, slot for slot, for every arc whose plane satisfies the
`Plane` invariants and whose inner arc satisfies the `Arc3D` invariants (given `sqrt 1 = 1`). -/
theorem arc3_dict_roundtrip_eq (M : MathOps α) (h1 : M.sqrt 1 = 1) (x : Arc3S α)
    (hv : PlaneValid x.plane) (hc : Arc3Canonical M x) : arc3_dict_roundtrip M x = x := by
  obtain ⟨hp, ha⟩ := arc3_dict_roundtrip_parts M x
  apply (arc3_ext_iff _ _).2
  refine ⟨hp.trans (plane_dict_roundtrip_eq M h1 x.plane hv), ha.trans ?_⟩
  obtain ⟨h0, c1, c2, c3, c4⟩ := hc
  exact arc2_ext h0.symm rfl rfl rfl c1.symm c2.symm c3.symm c4.symm

/-- `Arc3D.duplicate()` with NO assumption: the plane is the stored plane, slot for slot (it is
not re-normalised: no `sqrt` is involved), radius and angles are identical, and the result
satisfies the `Arc3D` invariants. -/
theorem arc3_copy_fields (M : MathOps α) (x : Arc3S α) :
    (arc3_copy M x).plane = x.plane ∧ (arc3_copy M x).arc2d.r = x.arc2d.r ∧
    (arc3_copy M x).arc2d.a1 = x.arc2d.a1 ∧ (arc3_copy M x).arc2d.a2 = x.arc2d.a2 ∧
    Arc3Canonical M (arc3_copy M x) :=
  ⟨rfl, rfl, rfl, rfl, rfl, rfl, rfl, rfl, rfl⟩

/-- `Arc3D.duplicate()` is the same arc, slot for slot, whenever the inner arc satisfies the
`Arc3D` invariants — for ANY stored plane (valid or not) and any `sqrt`. -/
theorem arc3_copy_eq (M : MathOps α) (x : Arc3S α) (hc : Arc3Canonical M x) :
    arc3_copy M x = x := by
  apply (arc3_ext_iff _ _).2
  refine ⟨rfl, ?_⟩
  obtain ⟨h0, c1, c2, c3, c4⟩ := hc
  exact arc2_ext h0.symm rfl rfl rfl c1.symm c2.symm c3.symm c4.symm

/-- `Arc3D.__eq__` returns `True` exactly when the plane's normal, origin and x-axis, the radius
and both angles are equal. -/
theorem arc3_eq_iff (x y : Arc3S α) :
    arc3_eq x y = true ↔ x.plane.n = y.plane.n ∧ x.plane.o = y.plane.o ∧ x.plane.x = y.plane.x ∧
      x.arc2d.r = y.arc2d.r ∧ x.arc2d.a1 = y.arc2d.a1 ∧ x.arc2d.a2 = y.arc2d.a2 := by
  simp only [arc3_eq, decide_eq_true_eq, v3_ext_iff, and_assoc] <;> tauto

/-- `Arc3D.__eq__` is `Plane.__eq__` of the planes together with equality of radius and angles. -/
theorem arc3_eq_iff_plane_eq (x y : Arc3S α) :
    arc3_eq x y = true ↔ plane_eq x.plane y.plane = true ∧
      x.arc2d.r = y.arc2d.r ∧ x.arc2d.a1 = y.arc2d.a1 ∧ x.arc2d.a2 = y.arc2d.a2 := by
  rw [arc3_eq_iff, plane_eq_iff]; tauto

/-- For arcs satisfying all constructor invariants `==` is equality of ALL slots. -/
theorem arc3_eq_iff_of_valid (M : MathOps α) (x y : Arc3S α) (hx : PlaneValid x.plane)
    (hy : PlaneValid y.plane) (cx : Arc3Canonical M x) (cy : Arc3Canonical M y) :
    arc3_eq x y = true ↔ x = y := by
  rw [arc3_eq_iff]
  constructor
  · rintro ⟨hn, ho, hxx, hr, h1, h2⟩
    apply (arc3_ext_iff _ _).2
    refine ⟨planeValid_ext hx hy hn ho hxx, ?_⟩
    apply (arc2_eq_iff_of_coherent M _ _ cx.2 cy.2).1
    exact (arc2_eq_iff _ _).2 ⟨cx.1.trans cy.1.symm, hr, h1, h2⟩
  · rintro rfl; exact ⟨rfl, rfl, rfl, rfl, rfl, rfl⟩

/-- `==` on `Arc3D` is reflexive. -/
theorem arc3_eq_refl (x : Arc3S α) : arc3_eq x x = true :=
  (arc3_eq_iff x x).2 ⟨rfl, rfl, rfl, rfl, rfl, rfl⟩

/-- `==` on `Arc3D` is symmetric. -/
theorem arc3_eq_symm (x y : Arc3S α) : arc3_eq x y = arc3_eq y x := by
  rw [Bool.eq_iff_iff, arc3_eq_iff, arc3_eq_iff]
  constructor <;> rintro ⟨h1, h2, h3, h4, h5, h6⟩ <;>
    exact ⟨h1.symm, h2.symm, h3.symm, h4.symm, h5.symm, h6.symm⟩

/-- `==` on `Arc3D` is transitive. -/
theorem arc3_eq_trans (x y z : Arc3S α) (h1 : arc3_eq x y = true) (h2 : arc3_eq y z = true) :
    arc3_eq x z = true := by
  rw [arc3_eq_iff] at *
  obtain ⟨a1, a2, a3, a4, a5, a6⟩ := h1
  obtain ⟨b1, b2, b3, b4, b5, b6⟩ := h2
  exact ⟨a1.trans b1, a2.trans b2, a3.trans b3, a4.trans b4, a5.trans b5, a6.trans b6⟩

/-- Two `Arc3D` with any differing defining coordinate (plane normal, origin, x-axis, radius, an
angle) compare unequal. -/
theorem arc3_ne_of_coordinate_differs (x y : Arc3S α)
    (h : x.plane.n.x ≠ y.plane.n.x ∨ x.plane.n.y ≠ y.plane.n.y ∨ x.plane.n.z ≠ y.plane.n.z ∨
      x.plane.o.x ≠ y.plane.o.x ∨ x.plane.o.y ≠ y.plane.o.y ∨ x.plane.o.z ≠ y.plane.o.z ∨
      x.plane.x.x ≠ y.plane.x.x ∨ x.plane.x.y ≠ y.plane.x.y ∨ x.plane.x.z ≠ y.plane.x.z ∨
      x.arc2d.r ≠ y.arc2d.r ∨ x.arc2d.a1 ≠ y.arc2d.a1 ∨ x.arc2d.a2 ≠ y.arc2d.a2) :
    arc3_eq x y = false := by
  rw [Bool.eq_false_iff]; intro he
  obtain ⟨h1, h2, h3, h4, h5, h6⟩ := (arc3_eq_iff x y).1 he
  simp [h1, h2, h3, h4, h5, h6] at h

/-- `a.duplicate() == a` for EVERY `Arc3D` (no validity, no assumption on `sqrt`, `cos`, `sin`). -/
theorem arc3_copy_eq_true (M : MathOps α) (x : Arc3S α) : arc3_eq (arc3_copy M x) x = true :=
  (arc3_eq_iff _ _).2 ⟨rfl, rfl, rfl, rfl, rfl, rfl⟩

/-- `Arc3D.from_dict(a.to_dict()) == a` whenever the stored plane normal and x-axis are unit
vectors (given `sqrt 1 = 1`). -/
theorem arc3_dict_roundtrip_eq_true (M : MathOps α) (h1 : M.sqrt 1 = 1) (x : Arc3S α)
    (hn : V3.normSq x.plane.n = 1) (hx : V3.normSq x.plane.x = 1) :
    arc3_eq (arc3_dict_roundtrip M x) x = true := by
  obtain ⟨a, b, c⟩ := plane_dict_roundtrip_defining M h1 x.plane hn hx
  exact (arc3_eq_iff _ _).2 ⟨a, b, c, rfl, rfl, rfl⟩

/-- The generated `Arc3D.__eq__` is equality of the keys `(plane, radius, a1, a2)` that `__hash__`
hashes. -/
theorem arc3_eq_iff_key (x y : Arc3S α) : arc3_eq x y = true ↔ arc3_key x = arc3_key y := by
  simp only [arc3_eq, decide_eq_true_eq, arc3_key, plane_key, v3_key, Prod.mk.injEq, and_assoc]
    <;> tauto

/-- `x == y` implies `hash(x) == hash(y)` for `Arc3D`, whatever the hash function on keys is. -/
theorem arc3_hash_eq {H : Type}
    (h : ((α × α × α) × (α × α × α) × (α × α × α)) × α × α × α → H) (x y : Arc3S α)
    (he : arc3_eq x y = true) : h (arc3_key x) = h (arc3_key y) := by
  rw [(arc3_eq_iff_key x y).1 he]

/-- `hash(a.duplicate()) == hash(a)` for every `Arc3D`. -/
theorem arc3_copy_hash_eq {H : Type}
    (h : ((α × α × α) × (α × α × α) × (α × α × α)) × α × α × α → H) (M : MathOps α)
    (x : Arc3S α) : h (arc3_key (arc3_copy M x)) = h (arc3_key x) :=
  arc3_hash_eq h _ _ (arc3_copy_eq_true M x)

/-! ## E. Solids

`Sphere`, `Cone`, `Cylinder`: the constructor stores its arguments verbatim (the cone / cylinder axis
is NOT normalised), so round trip and copy are the identity slot for slot. -/

/-! ### Sphere -/

/-- `Sphere.from_dict(x.to_dict())` is `x`, slot for slot (no arithmetic is performed). -/
theorem sphere_dict_roundtrip_eq (x : SphereS α) : sphere_dict_roundtrip x = x := rfl

/-- `Sphere.duplicate()` is the same object, slot for slot. -/
theorem sphere_copy_eq (x : SphereS α) : sphere_copy x = x := rfl

/-- `Sphere.__eq__` returns `True` exactly when all defining coordinates are equal. -/
theorem sphere_eq_iff (x y : SphereS α) : sphere_eq x y = true ↔ x = y := by
  simp only [sphere_eq, decide_eq_true_eq, sphere_ext_iff, v3_ext_iff, and_assoc] <;> tauto

/-- `==` on `Sphere` is reflexive. -/
theorem sphere_eq_refl (x : SphereS α) : sphere_eq x x = true := (sphere_eq_iff x x).2 rfl

/-- `==` on `Sphere` is symmetric. -/
theorem sphere_eq_symm (x y : SphereS α) : sphere_eq x y = sphere_eq y x := by
  rw [Bool.eq_iff_iff, sphere_eq_iff, sphere_eq_iff]; exact eq_comm

/-- `==` on `Sphere` is transitive. -/
theorem sphere_eq_trans (x y z : SphereS α) (h1 : sphere_eq x y = true) (h2 : sphere_eq y z = true) :
    sphere_eq x z = true :=
  (sphere_eq_iff x z).2 (((sphere_eq_iff x y).1 h1).trans ((sphere_eq_iff y z).1 h2))

/-- Two `Sphere` with any differing defining coordinate compare unequal. -/
theorem sphere_ne_of_coordinate_differs (x y : SphereS α)
    (h : x.center.x ≠ y.center.x ∨ x.center.y ≠ y.center.y ∨ x.center.z ≠ y.center.z ∨ x.radius ≠ y.radius) :
    sphere_eq x y = false := by
  rw [Bool.eq_false_iff]; intro he
  have := (sphere_eq_iff x y).1 he; subst this; simp at h

/-- `Sphere.__eq__` returns `False` exactly when the two objects differ in some slot. -/
theorem sphere_eq_false_iff (x y : SphereS α) : sphere_eq x y = false ↔ x ≠ y := by
  rw [Ne, ← sphere_eq_iff, Bool.not_eq_true]

/-- `x.duplicate() == x` for `Sphere`. -/
theorem sphere_copy_eq_true (x : SphereS α) : sphere_eq (sphere_copy x) x = true := by
  rw [sphere_copy_eq]; exact sphere_eq_refl x

/-- The generated `Sphere.__eq__` is equality of the keys that `__hash__` hashes. -/
theorem sphere_eq_iff_key (x y : SphereS α) : sphere_eq x y = true ↔ sphere_key x = sphere_key y := by
  simp only [sphere_eq, decide_eq_true_eq, sphere_key, v3_key, Prod.mk.injEq, and_assoc] <;> tauto

/-- `x == y` implies `hash(x) == hash(y)` for `Sphere`, whatever the hash function on keys
is (`__hash__` is `hash(self.__key())`). -/
theorem sphere_hash_eq {H : Type} (h : (α × α × α) × α → H) (x y : SphereS α)
    (he : sphere_eq x y = true) : h (sphere_key x) = h (sphere_key y) := by
  rw [(sphere_eq_iff_key x y).1 he]

/-- `hash(x.duplicate()) == hash(x)` for `Sphere`. -/
theorem sphere_copy_hash_eq {H : Type} (h : (α × α × α) × α → H) (x : SphereS α) :
    h (sphere_key (sphere_copy x)) = h (sphere_key x) := by
  rw [sphere_copy_eq]

/-! ### Cone -/

/-- `Cone.from_dict(x.to_dict())` is `x`, slot for slot (no arithmetic is performed). -/
theorem cone_dict_roundtrip_eq (x : ConeS α) : cone_dict_roundtrip x = x := rfl

/-- `Cone.duplicate()` is the same object, slot for slot. -/
theorem cone_copy_eq (x : ConeS α) : cone_copy x = x := rfl

/-- `Cone.__eq__` returns `True` exactly when all defining coordinates are equal. -/
theorem cone_eq_iff (x y : ConeS α) : cone_eq x y = true ↔ x = y := by
  simp only [cone_eq, decide_eq_true_eq, cone_ext_iff, v3_ext_iff, and_assoc] <;> tauto

/-- `==` on `Cone` is reflexive. -/
theorem cone_eq_refl (x : ConeS α) : cone_eq x x = true := (cone_eq_iff x x).2 rfl

/-- `==` on `Cone` is symmetric. -/
theorem cone_eq_symm (x y : ConeS α) : cone_eq x y = cone_eq y x := by
  rw [Bool.eq_iff_iff, cone_eq_iff, cone_eq_iff]; exact eq_comm

/-- `==` on `Cone` is transitive. -/
theorem cone_eq_trans (x y z : ConeS α) (h1 : cone_eq x y = true) (h2 : cone_eq y z = true) :
    cone_eq x z = true :=
  (cone_eq_iff x z).2 (((cone_eq_iff x y).1 h1).trans ((cone_eq_iff y z).1 h2))

/-- Two `Cone` with any differing defining coordinate compare unequal. -/
theorem cone_ne_of_coordinate_differs (x y : ConeS α)
    (h : x.vertex.x ≠ y.vertex.x ∨ x.vertex.y ≠ y.vertex.y ∨ x.vertex.z ≠ y.vertex.z ∨ x.axis.x ≠ y.axis.x ∨ x.axis.y ≠ y.axis.y ∨ x.axis.z ≠ y.axis.z ∨ x.angle ≠ y.angle) :
    cone_eq x y = false := by
  rw [Bool.eq_false_iff]; intro he
  have := (cone_eq_iff x y).1 he; subst this; simp at h

/-- `Cone.__eq__` returns `False` exactly when the two objects differ in some slot. -/
theorem cone_eq_false_iff (x y : ConeS α) : cone_eq x y = false ↔ x ≠ y := by
  rw [Ne, ← cone_eq_iff, Bool.not_eq_true]

/-- `x.duplicate() == x` for `Cone`. -/
theorem cone_copy_eq_true (x : ConeS α) : cone_eq (cone_copy x) x = true := by
  rw [cone_copy_eq]; exact cone_eq_refl x

/-- The generated `Cone.__eq__` is equality of the keys that `__hash__` hashes. -/
theorem cone_eq_iff_key (x y : ConeS α) : cone_eq x y = true ↔ cone_key x = cone_key y := by
  simp only [cone_eq, decide_eq_true_eq, cone_key, v3_key, Prod.mk.injEq, and_assoc] <;> tauto

/-- `x == y` implies `hash(x) == hash(y)` for `Cone`, whatever the hash function on keys
is (`__hash__` is `hash(self.__key())`). -/
theorem cone_hash_eq {H : Type} (h : (α × α × α) × (α × α × α) × α → H) (x y : ConeS α)
    (he : cone_eq x y = true) : h (cone_key x) = h (cone_key y) := by
  rw [(cone_eq_iff_key x y).1 he]

/-- `hash(x.duplicate()) == hash(x)` for `Cone`. -/
theorem cone_copy_hash_eq {H : Type} (h : (α × α × α) × (α × α × α) × α → H) (x : ConeS α) :
    h (cone_key (cone_copy x)) = h (cone_key x) := by
  rw [cone_copy_eq]

/-! ### Cylinder -/

/-- `Cylinder.from_dict(x.to_dict())` is `x`, slot for slot (no arithmetic is performed). -/
theorem cyl_dict_roundtrip_eq (x : CylS α) : cyl_dict_roundtrip x = x := rfl

/-- `Cylinder.duplicate()` is the same object, slot for slot. -/
theorem cyl_copy_eq (x : CylS α) : cyl_copy x = x := rfl

/-- `Cylinder.__eq__` returns `True` exactly when all defining coordinates are equal. -/
theorem cyl_eq_iff (x y : CylS α) : cyl_eq x y = true ↔ x = y := by
  simp only [cyl_eq, decide_eq_true_eq, cyl_ext_iff, v3_ext_iff, and_assoc] <;> tauto

/-- `==` on `Cylinder` is reflexive. -/
theorem cyl_eq_refl (x : CylS α) : cyl_eq x x = true := (cyl_eq_iff x x).2 rfl

/-- `==` on `Cylinder` is symmetric. -/
theorem cyl_eq_symm (x y : CylS α) : cyl_eq x y = cyl_eq y x := by
  rw [Bool.eq_iff_iff, cyl_eq_iff, cyl_eq_iff]; exact eq_comm

/-- `==` on `Cylinder` is transitive. -/
theorem cyl_eq_trans (x y z : CylS α) (h1 : cyl_eq x y = true) (h2 : cyl_eq y z = true) :
    cyl_eq x z = true :=
  (cyl_eq_iff x z).2 (((cyl_eq_iff x y).1 h1).trans ((cyl_eq_iff y z).1 h2))

/-- Two `Cylinder` with any differing defining coordinate compare unequal. -/
theorem cyl_ne_of_coordinate_differs (x y : CylS α)
    (h : x.center.x ≠ y.center.x ∨ x.center.y ≠ y.center.y ∨ x.center.z ≠ y.center.z ∨ x.axis.x ≠ y.axis.x ∨ x.axis.y ≠ y.axis.y ∨ x.axis.z ≠ y.axis.z ∨ x.radius ≠ y.radius) :
    cyl_eq x y = false := by
  rw [Bool.eq_false_iff]; intro he
  have := (cyl_eq_iff x y).1 he; subst this; simp at h

/-- `Cylinder.__eq__` returns `False` exactly when the two objects differ in some slot. -/
theorem cyl_eq_false_iff (x y : CylS α) : cyl_eq x y = false ↔ x ≠ y := by
  rw [Ne, ← cyl_eq_iff, Bool.not_eq_true]

/-- `x.duplicate() == x` for `Cylinder`. -/
theorem cyl_copy_eq_true (x : CylS α) : cyl_eq (cyl_copy x) x = true := by
  rw [cyl_copy_eq]; exact cyl_eq_refl x

/-- The generated `Cylinder.__eq__` is equality of the keys that `__hash__` hashes. -/
theorem cyl_eq_iff_key (x y : CylS α) : cyl_eq x y = true ↔ cyl_key x = cyl_key y := by
  simp only [cyl_eq, decide_eq_true_eq, cyl_key, v3_key, Prod.mk.injEq, and_assoc] <;> tauto

/-- `x == y` implies `hash(x) == hash(y)` for `Cylinder`, whatever the hash function on keys
is (`__hash__` is `hash(self.__key())`). -/
theorem cyl_hash_eq {H : Type} (h : (α × α × α) × (α × α × α) × α → H) (x y : CylS α)
    (he : cyl_eq x y = true) : h (cyl_key x) = h (cyl_key y) := by
  rw [(cyl_eq_iff_key x y).1 he]

/-- `hash(x.duplicate()) == hash(x)` for `Cylinder`. -/
theorem cyl_copy_hash_eq {H : Type} (h : (α × α × α) × (α × α × α) × α → H) (x : CylS α) :
    h (cyl_key (cyl_copy x)) = h (cyl_key x) := by
  rw [cyl_copy_eq]

/-! ## F. Non-vacuity examples over ℚ

`Mq` (from `Props/C02.lean`) is a toy `MathOps ℚ` with `sqrt 9 = 3`, `sqrt 1 = 1`, `cos ≡ 3/5`,
`sin t = 4/5` for `t ≠ 0`. -/

/-- The hypotheses of `plane_dict_roundtrip_eq` are satisfiable by a plane in non-trivial
orientation (`n = (3/5, 4/5, 0)`, `x = (0, 0, 1)`, `y = n × x = (4/5, -3/5, 0)`, `k = n·o = 11/5`),
and the kernel indeed reproduces it. -/
example :
    PlaneValid (⟨⟨3 / 5, 4 / 5, 0⟩, ⟨1, 2, 3⟩, 11 / 5, ⟨0, 0, 1⟩, ⟨4 / 5, -3 / 5, 0⟩⟩ : PlaneS ℚ) ∧
    Mq.sqrt 1 = 1 ∧
    plane_dict_roundtrip Mq ⟨⟨3 / 5, 4 / 5, 0⟩, ⟨1, 2, 3⟩, 11 / 5, ⟨0, 0, 1⟩, ⟨4 / 5, -3 / 5, 0⟩⟩ =
      ⟨⟨3 / 5, 4 / 5, 0⟩, ⟨1, 2, 3⟩, 11 / 5, ⟨0, 0, 1⟩, ⟨4 / 5, -3 / 5, 0⟩⟩ := by
  refine ⟨⟨?_, ?_, ?_, ?_, ?_⟩, ?_, ?_⟩ <;> decide +kernel

/-- The validity hypothesis is needed for the dictionary round trip but NOT for `duplicate()`:
slots with a non-unit normal `(0, 0, 3)` (and a stale `k`, `y`) come back from `from_dict` with
`n = (0, 0, 1)` — the same origin, the normalised normal — and so differ from and compare unequal
to the original, whereas `duplicate()` returns exactly the stored slots and compares equal. -/
example :
    plane_dict_roundtrip Mq (⟨⟨0, 0, 3⟩, ⟨1, 2, 3⟩, 7, ⟨1, 0, 0⟩, ⟨0, 5, 0⟩⟩ : PlaneS ℚ) =
      ⟨⟨0, 0, 1⟩, ⟨1, 2, 3⟩, 3, ⟨1, 0, 0⟩, ⟨0, 1, 0⟩⟩ ∧
    plane_eq (plane_dict_roundtrip Mq (⟨⟨0, 0, 3⟩, ⟨1, 2, 3⟩, 7, ⟨1, 0, 0⟩, ⟨0, 5, 0⟩⟩ : PlaneS ℚ))
      ⟨⟨0, 0, 3⟩, ⟨1, 2, 3⟩, 7, ⟨1, 0, 0⟩, ⟨0, 5, 0⟩⟩ = false ∧
    plane_copy Mq (⟨⟨0, 0, 3⟩, ⟨1, 2, 3⟩, 7, ⟨1, 0, 0⟩, ⟨0, 5, 0⟩⟩ : PlaneS ℚ) =
      ⟨⟨0, 0, 3⟩, ⟨1, 2, 3⟩, 7, ⟨1, 0, 0⟩, ⟨0, 5, 0⟩⟩ ∧
    plane_eq (plane_copy Mq (⟨⟨0, 0, 3⟩, ⟨1, 2, 3⟩, 7, ⟨1, 0, 0⟩, ⟨0, 5, 0⟩⟩ : PlaneS ℚ))
      ⟨⟨0, 0, 3⟩, ⟨1, 2, 3⟩, 7, ⟨1, 0, 0⟩, ⟨0, 5, 0⟩⟩ = true := by
  refine ⟨?_, ?_, ?_, ?_⟩ <;> decide +kernel

/-- `Plane.__eq__` really ignores the derived slots: without validity two slot records with equal
`n`, `o`, `x` but different `k` compare equal although they are different records (so the validity
hypotheses of `plane_eq_iff_of_valid` cannot be dropped). -/
example :
    plane_eq (⟨⟨0, 0, 1⟩, ⟨1, 2, 3⟩, 3, ⟨1, 0, 0⟩, ⟨0, 1, 0⟩⟩ : PlaneS ℚ)
      ⟨⟨0, 0, 1⟩, ⟨1, 2, 3⟩, 4, ⟨1, 0, 0⟩, ⟨0, 1, 0⟩⟩ = true ∧
    (⟨⟨0, 0, 1⟩, ⟨1, 2, 3⟩, 3, ⟨1, 0, 0⟩, ⟨0, 1, 0⟩⟩ : PlaneS ℚ) ≠
      ⟨⟨0, 0, 1⟩, ⟨1, 2, 3⟩, 4, ⟨1, 0, 0⟩, ⟨0, 1, 0⟩⟩ := by
  refine ⟨?_, ?_⟩ <;> decide +kernel

/-- A cache-coherent `Arc2D` exists (centre `(1, 2)`, radius 1, angles 1 and 4, caches as `Mq`
computes them) and both round trip and copy reproduce it; an INCOHERENT record (caches all 0) is not
reproduced slot for slot, but still compares equal to its copy. -/
example :
    Arc2Coherent Mq (⟨⟨1, 2⟩, 1, 1, 4, 3 / 5, 4 / 5, 3 / 5, 4 / 5⟩ : Arc2S ℚ) ∧
    arc2_dict_roundtrip Mq (⟨⟨1, 2⟩, 1, 1, 4, 3 / 5, 4 / 5, 3 / 5, 4 / 5⟩ : Arc2S ℚ) =
      ⟨⟨1, 2⟩, 1, 1, 4, 3 / 5, 4 / 5, 3 / 5, 4 / 5⟩ ∧
    arc2_copy Mq (⟨⟨1, 2⟩, 1, 1, 4, 3 / 5, 4 / 5, 3 / 5, 4 / 5⟩ : Arc2S ℚ) =
      ⟨⟨1, 2⟩, 1, 1, 4, 3 / 5, 4 / 5, 3 / 5, 4 / 5⟩ ∧
    arc2_copy Mq (⟨⟨1, 2⟩, 1, 1, 4, 0, 0, 0, 0⟩ : Arc2S ℚ) ≠ ⟨⟨1, 2⟩, 1, 1, 4, 0, 0, 0, 0⟩ ∧
    arc2_eq (arc2_copy Mq (⟨⟨1, 2⟩, 1, 1, 4, 0, 0, 0, 0⟩ : Arc2S ℚ))
      ⟨⟨1, 2⟩, 1, 1, 4, 0, 0, 0, 0⟩ = true := by
  refine ⟨⟨?_, ?_, ?_, ?_⟩, ?_, ?_, ?_, ?_⟩ <;> decide +kernel

/-- The hypotheses of `arc3_dict_roundtrip_eq` / `arc3_copy_eq` are satisfiable together: a valid
plane in general orientation with a canonical inner arc, reproduced by both kernels. -/
example :
    PlaneValid (⟨⟨⟨3 / 5, 4 / 5, 0⟩, ⟨1, 2, 3⟩, 11 / 5, ⟨0, 0, 1⟩, ⟨4 / 5, -3 / 5, 0⟩⟩,
      ⟨⟨0, 0⟩, 2, 1, 4, 3 / 5, 4 / 5, 3 / 5, 4 / 5⟩⟩ : Arc3S ℚ).plane ∧
    Arc3Canonical Mq (⟨⟨⟨3 / 5, 4 / 5, 0⟩, ⟨1, 2, 3⟩, 11 / 5, ⟨0, 0, 1⟩, ⟨4 / 5, -3 / 5, 0⟩⟩,
      ⟨⟨0, 0⟩, 2, 1, 4, 3 / 5, 4 / 5, 3 / 5, 4 / 5⟩⟩ : Arc3S ℚ) ∧
    arc3_dict_roundtrip Mq (⟨⟨⟨3 / 5, 4 / 5, 0⟩, ⟨1, 2, 3⟩, 11 / 5, ⟨0, 0, 1⟩, ⟨4 / 5, -3 / 5, 0⟩⟩,
      ⟨⟨0, 0⟩, 2, 1, 4, 3 / 5, 4 / 5, 3 / 5, 4 / 5⟩⟩ : Arc3S ℚ) =
      ⟨⟨⟨3 / 5, 4 / 5, 0⟩, ⟨1, 2, 3⟩, 11 / 5, ⟨0, 0, 1⟩, ⟨4 / 5, -3 / 5, 0⟩⟩,
      ⟨⟨0, 0⟩, 2, 1, 4, 3 / 5, 4 / 5, 3 / 5, 4 / 5⟩⟩ ∧
    arc3_copy Mq (⟨⟨⟨3 / 5, 4 / 5, 0⟩, ⟨1, 2, 3⟩, 11 / 5, ⟨0, 0, 1⟩, ⟨4 / 5, -3 / 5, 0⟩⟩,
      ⟨⟨0, 0⟩, 2, 1, 4, 3 / 5, 4 / 5, 3 / 5, 4 / 5⟩⟩ : Arc3S ℚ) =
      ⟨⟨⟨3 / 5, 4 / 5, 0⟩, ⟨1, 2, 3⟩, 11 / 5, ⟨0, 0, 1⟩, ⟨4 / 5, -3 / 5, 0⟩⟩,
      ⟨⟨0, 0⟩, 2, 1, 4, 3 / 5, 4 / 5, 3 / 5, 4 / 5⟩⟩ := by
  refine ⟨⟨?_, ?_, ?_, ?_, ?_⟩, ⟨?_, ?_, ?_, ?_, ?_⟩, ?_, ?_⟩ <;> decide +kernel

/-- The generated `__eq__` kernels distinguish the coordinates `-1` and `-2` (which CPython hashes
to the same value): equal hashes do not make objects equal. -/
example :
    v3_eq (⟨-1, 0, 0⟩ : V3 ℚ) ⟨-2, 0, 0⟩ = false ∧
    seg2_eq (⟨⟨0, 0⟩, ⟨-1, 0⟩⟩ : LR2 ℚ) ⟨⟨0, 0⟩, ⟨-2, 0⟩⟩ = false ∧
    sphere_eq (⟨⟨0, 0, -1⟩, 1⟩ : SphereS ℚ) ⟨⟨0, 0, -2⟩, 1⟩ = false := by
  refine ⟨?_, ?_, ?_⟩ <;> decide +kernel

/-- The segment array round trip on a concrete segment with non-integer coordinates. -/
example :
    seg3_array_roundtrip (⟨⟨1 / 3, 2 / 7, -5⟩, ⟨1 / 9, -4, 2 / 11⟩⟩ : LR3 ℚ) =
      ⟨⟨1 / 3, 2 / 7, -5⟩, ⟨1 / 9, -4, 2 / 11⟩⟩ := by
  decide +kernel

end Lbg.Props.C13
