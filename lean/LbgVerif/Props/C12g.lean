/-
  C12g — polygon distances: the GENERATED definitions of `Polygon2D.distance_from_edge_to_point`,
  `Polygon2D.distance_to_point` and `_Cell._get_seg_dist_sq` (`Gen/PolyMore.lean`, regenerated
  from `geometry2d/polygon.py`) are EQUAL to the literal hand models of
  `Model/PolyDistance.lean` (`distanceFromEdgeToPoint`, `distanceToPoint`, `segDistSq`).  Hence
  the theorems of `Props/C12b` about these hand models (minimum over the boundary, attainment,
  zero exactly on the boundary, 1-Lipschitz, rotation / reversal invariance, the inside / outside
  case split of `distance_to_point`, `_get_seg_dist_sq` = squared distance to the generated
  closest point) are theorems about the regenerated code; a change of these methods in
  `polygon.py` changes the generated terms and breaks the equalities below.

  Receiver invariant registered for the polygon kernels: `3 ≤ vs.length`; the ties need only
  `vs ≠ []`.  `_get_seg_dist_sq` has no assumptions.

  Not tied here (no generated kernel exists): `_Cell._point_to_polygon_distance`,
  `_get_centroid_cell`, `pole_of_inaccessibility` (priority queue, `while` loops) and
  `closest_point2d_between_line2d` / `closest_end_point2d_between_line2d` (`Model/SegSeg`).
-/
import LbgVerif.Gen.PolyMore
import LbgVerif.Model.PolyDistance
import LbgVerif.Lemmas.GenTiesC12
import LbgVerif.Props.C08g
import LbgVerif.Props.C12b
import Mathlib.Algebra.Order.Field.Rat

namespace Lbg.Props.C12g
open Lbg Lbg.Gen Lbg.Lemmas Lbg.Lemmas.GenTiesC12 Lbg.Model.PointInside Lbg.Model.PolyDistance
variable {α : Type} [Field α] [LinearOrder α] [IsStrictOrderedRing α]

/-- The default test vector of `is_point_inside_bound_rect`, `Vector2D(1, 0.00001)` (the exact
value of the double `0.00001`). -/
def defaultTestVector : V2 α := ⟨1, (5902958103587057 : α) / 590295810358705651712⟩

/-! ### `Polygon2D.distance_from_edge_to_point` -/

omit [IsStrictOrderedRing α] in
/-- Generated `distance_from_edge_to_point` is Python's `min(…)` (fold of `min` from the head)
over the generated `LineSegment2D.distance_to_point` of the generated `Polygon2D.segments`. -/
theorem polygon2d_distance_from_edge_to_point_eq_segments (M : MathOps α) (vs : List (V2 α))
    (p : V2 α) :
    polygon2d_distance_from_edge_to_point M vs p =
      minOf ((polygon2d_segments vs).map (fun seg => seg2_distance_to_point M seg p)) := by
  rw [← foldl_min_map_eq_minOf]
  unfold polygon2d_distance_from_edge_to_point polygon2d_segments seg2_distance_to_point
  rfl

omit [IsStrictOrderedRing α] in
/-- TIE: generated `polygon2d_distance_from_edge_to_point` (Python
`Polygon2D.distance_from_edge_to_point`) = hand model `PolyDistance.distanceFromEdgeToPoint`. -/
theorem polygon2d_distance_from_edge_to_point_eq_model (M : MathOps α) (vs : List (V2 α))
    (h : vs ≠ []) (p : V2 α) :
    polygon2d_distance_from_edge_to_point M vs p = distanceFromEdgeToPoint M vs p := by
  rw [polygon2d_distance_from_edge_to_point_eq_segments, C08g.polygon2d_segments_eq_model vs h]
  rfl

/-! ### `Polygon2D.distance_to_point` -/

omit [IsStrictOrderedRing α] in
/-- Generated `distance_to_point`: `0` when the generated `is_point_inside_bound_rect` (default
test vector) says inside, otherwise the generated `distance_from_edge_to_point` — the inlined
bounding-rectangle rejections and the parity test are those of the generated kernels. -/
theorem polygon2d_distance_to_point_eq_kernels (M : MathOps α) (vs : List (V2 α)) (p : V2 α) :
    polygon2d_distance_to_point M vs p =
      if polygon2d_is_point_inside_bound_rect vs p defaultTestVector = true then 0
      else polygon2d_distance_from_edge_to_point M vs p := by
  unfold polygon2d_distance_to_point polygon2d_is_point_inside_bound_rect
    polygon2d_distance_from_edge_to_point defaultTestVector
  exact dist_shape _ _ _ _ _ _ _

omit [IsStrictOrderedRing α] in
/-- TIE: generated `polygon2d_distance_to_point` (Python `Polygon2D.distance_to_point`) = hand
model `PolyDistance.distanceToPoint` with the default test vector `Vector2D(1, 0.00001)`. -/
theorem polygon2d_distance_to_point_eq_model (M : MathOps α) (vs : List (V2 α)) (h : vs ≠ [])
    (p : V2 α) :
    polygon2d_distance_to_point M vs p = distanceToPoint M vs p defaultTestVector := by
  cases vs with
  | nil => exact absurd rfl h
  | cons v0 rest =>
    rw [polygon2d_distance_to_point_eq_kernels, C08g.polygon2d_is_point_inside_bound_rect_eq_model,
      polygon2d_distance_from_edge_to_point_eq_model M _ h]
    rfl

/-! ### `_Cell._get_seg_dist_sq` -/

omit [IsStrictOrderedRing α] in
/-- TIE: generated `cell_get_seg_dist_sq` (Python `_Cell._get_seg_dist_sq(px, py, a, b)`, points
as coordinate tuples) = hand model `PolyDistance.segDistSq` (points as `V2`).  No assumptions. -/
theorem cell_get_seg_dist_sq_eq_model (px py : α) (a b : V2 α) :
    cell_get_seg_dist_sq px py (a.x, a.y) (b.x, b.y) = segDistSq px py a b := by
  unfold cell_get_seg_dist_sq segDistSq
  simp only [gt_iff_lt, ne_eq]
  by_cases h1 : b.x - a.x = 0 <;> by_cases h2 : b.y - a.y = 0 <;>
    simp only [h1, h2, not_true_eq_false, not_false_eq_true, or_self, or_true, true_or,
      if_true, if_false] <;>
    split_ifs <;> rfl

omit [IsStrictOrderedRing α] in
/-- The same tie for arbitrary coordinate tuples. -/
theorem cell_get_seg_dist_sq_eq_model' (px py : α) (a b : α × α) :
    cell_get_seg_dist_sq px py a b = segDistSq px py ⟨a.1, a.2⟩ ⟨b.1, b.2⟩ :=
  cell_get_seg_dist_sq_eq_model px py ⟨a.1, a.2⟩ ⟨b.1, b.2⟩

/-! ### Hand-model theorems of `Props/C12b` transported to the generated definitions -/

/-- (from `C12b.edge_distance_lipschitz`) The generated `distance_from_edge_to_point` is
1-Lipschitz in the query point. -/
theorem gen_edge_distance_lipschitz (M : MathOps α)
    (hsqrt : ∀ x, 0 ≤ x → M.sqrt x * M.sqrt x = x ∧ 0 ≤ M.sqrt x)
    (vs : List (V2 α)) (h : vs ≠ []) (q1 q2 : V2 α) :
    |polygon2d_distance_from_edge_to_point M vs q1 - polygon2d_distance_from_edge_to_point M vs q2|
      ≤ M.sqrt (C12b.distSq2 q1 q2) := by
  rw [polygon2d_distance_from_edge_to_point_eq_model M vs h,
    polygon2d_distance_from_edge_to_point_eq_model M vs h]
  exact C12b.edge_distance_lipschitz M hsqrt vs h q1 q2

/-- (from `C12b.edge_distance_le`, `edge_distance_attained`) The generated
`distance_from_edge_to_point` is the minimum over the boundary: a lower bound for the distance
to every boundary point, attained at one of them. -/
theorem gen_edge_distance_minimal (M : MathOps α)
    (hsqrt : ∀ x, 0 ≤ x → M.sqrt x * M.sqrt x = x ∧ 0 ≤ M.sqrt x)
    (vs : List (V2 α)) (h : vs ≠ []) (q : V2 α) :
    (∀ x, C12b.OnBoundary vs x →
      polygon2d_distance_from_edge_to_point M vs q ≤ M.sqrt (C12b.distSq2 q x)) ∧
    (∃ x, C12b.OnBoundary vs x ∧
      polygon2d_distance_from_edge_to_point M vs q = M.sqrt (C12b.distSq2 q x)) := by
  rw [polygon2d_distance_from_edge_to_point_eq_model M vs h]
  exact ⟨fun x hx => C12b.edge_distance_le M hsqrt vs q x hx,
    C12b.edge_distance_attained M hsqrt vs h q⟩

/-- (from `C12b.edge_distance_zero_iff`) The generated `distance_from_edge_to_point` is zero
exactly for queries on the boundary. -/
theorem gen_edge_distance_zero_iff (M : MathOps α)
    (hsqrt : ∀ x, 0 ≤ x → M.sqrt x * M.sqrt x = x ∧ 0 ≤ M.sqrt x)
    (vs : List (V2 α)) (h : vs ≠ []) (q : V2 α) :
    polygon2d_distance_from_edge_to_point M vs q = 0 ↔ C12b.OnBoundary vs q := by
  rw [polygon2d_distance_from_edge_to_point_eq_model M vs h]
  exact C12b.edge_distance_zero_iff M hsqrt vs h q

/-- (from `C12b.distance_to_point_bounds`, `distance_to_point_zero_iff`) The generated
`distance_to_point` is non-negative, at most the generated edge distance, and zero exactly when
the generated `is_point_inside_bound_rect` says inside or the query is on the boundary. -/
theorem gen_distance_to_point_bounds (M : MathOps α)
    (hsqrt : ∀ x, 0 ≤ x → M.sqrt x * M.sqrt x = x ∧ 0 ≤ M.sqrt x)
    (v0 : V2 α) (rest : List (V2 α)) (q : V2 α) :
    0 ≤ polygon2d_distance_to_point M (v0 :: rest) q ∧
    polygon2d_distance_to_point M (v0 :: rest) q
      ≤ polygon2d_distance_from_edge_to_point M (v0 :: rest) q ∧
    (polygon2d_distance_to_point M (v0 :: rest) q = 0 ↔
      (polygon2d_is_point_inside_bound_rect (v0 :: rest) q defaultTestVector = true ∨
        C12b.OnBoundary (v0 :: rest) q)) := by
  have h : v0 :: rest ≠ [] := List.cons_ne_nil _ _
  rw [polygon2d_distance_to_point_eq_model M _ h,
    polygon2d_distance_from_edge_to_point_eq_model M _ h,
    C08g.polygon2d_is_point_inside_bound_rect_eq_model]
  exact ⟨(C12b.distance_to_point_bounds M hsqrt _ q _).1,
    (C12b.distance_to_point_bounds M hsqrt _ q _).2,
    C12b.distance_to_point_zero_iff M hsqrt _ h q _⟩

/-- (from `C12b.segDistSq_eq_closest`) The generated `_Cell._get_seg_dist_sq` is the squared
distance from `(px, py)` to the generated `closest_point2d_on_line2d` on the segment `a b`. -/
theorem gen_cell_seg_dist_sq_eq_closest (px py : α) (a b : V2 α) :
    cell_get_seg_dist_sq px py (a.x, a.y) (b.x, b.y) =
      C12b.distSq2 ⟨px, py⟩
        (closest_point2d_on_line2d_s ⟨px, py⟩ (seg2_from_end_points a b)) := by
  rw [cell_get_seg_dist_sq_eq_model]
  exact C12b.segDistSq_eq_closest px py a b

/-! ### Non-vacuity: the generated kernels on concrete polygons (ℚ) -/

/-- `sqrt := id`: the generated routines then return SQUARED distances, exact over ℚ. -/
def sqOps : MathOps ℚ := Lbg.Model.SegSeg.sqOps C12b.tableOps

/-- L-shaped hexagon: squared edge distance `1` at `(3,3)` (outside, in the notch) and at `(1,1)`
(inside); `distance_to_point` is `0` inside and the edge distance outside; on the boundary `0`. -/
example : polygon2d_distance_from_edge_to_point sqOps C12b.lshape ⟨3, 3⟩ = 1 ∧
    polygon2d_distance_from_edge_to_point sqOps C12b.lshape ⟨1, 1⟩ = 1 ∧
    polygon2d_distance_from_edge_to_point sqOps C12b.lshape ⟨3, 2⟩ = 0 ∧
    polygon2d_distance_to_point sqOps C12b.lshape ⟨1, 1⟩ = 0 ∧
    polygon2d_distance_to_point sqOps C12b.lshape ⟨3, 3⟩ = 1 ∧
    polygon2d_distance_to_point sqOps C12b.lshape ⟨7, 4⟩ = 13 := by decide +kernel

example : cell_get_seg_dist_sq (3 : ℚ) 4 (0, 0) (2, 0) = 17 ∧
    cell_get_seg_dist_sq (1 : ℚ) 4 (0, 0) (2, 0) = 16 ∧
    cell_get_seg_dist_sq (-3 : ℚ) 4 (0, 0) (2, 0) = 25 ∧
    cell_get_seg_dist_sq (3 : ℚ) 4 (0, 0) (0, 0) = 25 := by decide +kernel

end Lbg.Props.C12g
