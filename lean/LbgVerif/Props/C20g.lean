/-
  C20g — grid meshes and mesh editing: the GENERATED definitions of the `Mesh2D` / `Mesh3D`
  helpers (`Gen/Mesh.lean`, `Gen/MeshMore.lean`, regenerated from `geometry2d/mesh.py`,
  `geometry3d/mesh.py`) are EQUAL to the literal hand models `Model/Grid.lean` (grid generators,
  `_domain_dimensions`), `Model/MeshCache.lean` (per-face centre / area / centroid, the quad
  split `Kern.diag02`, the bounding box scan) and `Model/MeshCache3.lean`.  Hence every theorem of
  `Props/C20` (and of C03b about the memo machine) stated for the hand models is a theorem
  about the regenerated code; a change of these functions in the Python source changes the
  generated terms and breaks these equalities.

  Ties (generated kernel = hand function):
    * `mesh2d_grid_vertices_1x1/2x1/2x3`  = `gridVertices base 1 1 / 2 1 / 2 3`;
    * `mesh2d_grid_centroids_1x1/2x1/2x3` = `gridCentroids base 1 1 / 2 1 / 2 3`;
    * `mesh2d_domain_dimensions`          = `domainDimensions` (for a `math.floor` that is `⌊·⌋`);
    * `mesh2d_face_center_tri/quad`       = `faceCenter [..]`;  `mesh2d_get_area_tri/quad` = `getArea [..]`;
      `mesh2d_tri_centroid` = `triCentroid`;
    * `mesh2d_concave_quad_to_triangles`, `mesh2d_quad_to_triangles` = the split chosen by
      `(stdKern (1, 0.00001)).diag02`;  `mesh2d_quad_centroid` = `quadCentroid (stdKern …)`;
    * `mesh2d_calculate_min_max / min / max / center` = `calcMinMax`, `readMin/readMax/readCenter`
      of a fresh mesh;  `mesh3d_calculate_min_max` = `calcMinMax3`;
    * `mesh3d_normal_area_tri/quad` = `MeshCache3.faceNA` (the hand model calls the generated
      kernels literally: `rfl`);  `mesh3d_face_center_quad` projects to `faceCenter`.
-/
import LbgVerif.Gen.Mesh
import LbgVerif.Gen.MeshMore
import LbgVerif.Gen.Base2D
import LbgVerif.Model.Grid
import LbgVerif.Model.MeshCache
import LbgVerif.Model.MeshCache3
import LbgVerif.Model.PolylineCache
import LbgVerif.Lemmas.GenTiesC07
import LbgVerif.Props.C10g
import LbgVerif.Props.C20
import Mathlib.Algebra.Order.Floor.Ring
import Mathlib.Data.Rat.Floor
import Mathlib.Tactic.NormNum
import Mathlib.Algebra.Order.Field.Rat

set_option linter.unusedSectionVars false

namespace Lbg.Props.C20g
open Lbg Lbg.Gen Lbg.Lemmas Lbg.Lemmas.GenTiesC07 Lbg.Model Lbg.Model.MeshCache
open Lbg.Props.C10 (minMax2 minMax3)
variable {α : Type} [Field α] [LinearOrder α] [IsStrictOrderedRing α]

/-- The double `0.00001` of the default test vector `Vector2D(1, 0.00001)` (exact value). -/
def tv : V2 α := ⟨1, (5902958103587057 : α) / 590295810358705651712⟩

/-- `[(0, 1, 2), (2, 3, 0)]`: split along the diagonal `0–2`. -/
def split02 : List (Nat × Nat × Nat) := [(0, 1, 2), (2, 3, 0)]
/-- `[(1, 2, 3), (3, 0, 1)]`: split along the diagonal `1–3`. -/
def split13 : List (Nat × Nat × Nat) := [(1, 2, 3), (3, 0, 1)]

/-! ### Grid generators (`Model/Grid.lean`) -/

/-- TIE: generated `Mesh2D._grid_vertices(base, 1, 1, x_dim, y_dim)` = hand model
`gridVertices base 1 1`. -/
theorem mesh2d_grid_vertices_1x1_eq_model (b : V2 α) (xd yd : α) :
    mesh2d_grid_vertices_1x1 b xd yd = gridVertices b 1 1 xd yd := rfl

/-- TIE: generated `Mesh2D._grid_vertices(base, 2, 1, …)` = hand model `gridVertices base 2 1`. -/
theorem mesh2d_grid_vertices_2x1_eq_model (b : V2 α) (xd yd : α) :
    mesh2d_grid_vertices_2x1 b xd yd = gridVertices b 2 1 xd yd := rfl

/-- TIE: generated `Mesh2D._grid_vertices(base, 2, 3, …)` = hand model `gridVertices base 2 3`. -/
theorem mesh2d_grid_vertices_2x3_eq_model (b : V2 α) (xd yd : α) :
    mesh2d_grid_vertices_2x3 b xd yd = gridVertices b 2 3 xd yd := rfl

/-- TIE: generated `Mesh2D._grid_centroids(base, 1, 1, …)` = hand model `gridCentroids base 1 1`. -/
theorem mesh2d_grid_centroids_1x1_eq_model (b : V2 α) (xd yd : α) :
    mesh2d_grid_centroids_1x1 b xd yd = gridCentroids b 1 1 xd yd := rfl

/-- TIE: generated `Mesh2D._grid_centroids(base, 2, 1, …)` = hand model `gridCentroids base 2 1`. -/
theorem mesh2d_grid_centroids_2x1_eq_model (b : V2 α) (xd yd : α) :
    mesh2d_grid_centroids_2x1 b xd yd = gridCentroids b 2 1 xd yd := rfl

/-- TIE: generated `Mesh2D._grid_centroids(base, 2, 3, …)` = hand model `gridCentroids base 2 3`. -/
theorem mesh2d_grid_centroids_2x3_eq_model (b : V2 α) (xd yd : α) :
    mesh2d_grid_centroids_2x3 b xd yd = gridCentroids b 2 3 xd yd := rfl

/-- TIE: generated `Mesh2D._domain_dimensions(dom, dim)` = hand model `domainDimensions`
(`int(dom / dim)` is truncation toward zero; the generated kernel writes it with `math.floor`,
assumed to be the floor function; the cell count is returned as a number of the field). -/
theorem mesh2d_domain_dimensions_eq_model [FloorRing α] (M : MathOps α)
    (hfloor : ∀ x : α, M.floor x = ((⌊x⌋ : ℤ) : α)) (dom dim : α) :
    mesh2d_domain_dimensions M dom dim =
      ((domainDimensions dom dim).1, (((domainDimensions dom dim).2 : ℤ) : α)) := by
  unfold mesh2d_domain_dimensions domainDimensions pyInt
  simp only [hfloor]
  have e : -((⌊-(dom / dim)⌋ : ℤ) : α) = ((⌈dom / dim⌉ : ℤ) : α) := by
    rw [Int.floor_neg]; push_cast; ring
  rw [e]
  by_cases h : dom / dim < 0
  · have h' : ¬ 0 ≤ dom / dim := not_le.mpr h
    simp only [h, h', if_true, if_false]
    by_cases hz : ⌈dom / dim⌉ = 0
    · simp [hz]
    · have hz' : ((⌈dom / dim⌉ : ℤ) : α) ≠ 0 := Int.cast_ne_zero.mpr hz
      simp [hz, hz']
  · have h' : 0 ≤ dom / dim := not_lt.mp h
    simp only [h, h', if_true, if_false]
    by_cases hz : ⌊dom / dim⌋ = 0
    · simp [hz]
    · have hz' : ((⌊dom / dim⌋ : ℤ) : α) ≠ 0 := Int.cast_ne_zero.mpr hz
      simp [hz, hz']

/-! ### Per-face kernels (`Model/MeshCache.lean`) -/

/-- TIE: generated `Mesh2D._face_center` on a triangle = hand model `faceCenter [a, b, c]`. -/
theorem mesh2d_face_center_tri_eq_model (a b c : V2 α) :
    mesh2d_face_center_tri (a, b, c) = faceCenter [a, b, c] := by
  unfold mesh2d_face_center_tri faceCenter pySum
  simp only [List.map, List.foldl, List.length]
  norm_num

/-- TIE: generated `Mesh2D._face_center` on a quad = hand model `faceCenter [a, b, c, d]`. -/
theorem mesh2d_face_center_quad_eq_model (a b c d : V2 α) :
    mesh2d_face_center_quad (a, b, c, d) = faceCenter [a, b, c, d] := by
  unfold mesh2d_face_center_quad faceCenter pySum
  simp only [List.map, List.foldl, List.length]
  norm_num

/-- TIE: generated `Mesh2D._get_area` on a triangle = hand model `getArea [a, b, c]`. -/
theorem mesh2d_get_area_tri_eq_model (a b c : V2 α) :
    mesh2d_get_area_tri (a, b, c) = getArea [a, b, c] := rfl

/-- TIE: generated `Mesh2D._get_area` on a quad = hand model `getArea [a, b, c, d]`. -/
theorem mesh2d_get_area_quad_eq_model (a b c d : V2 α) :
    mesh2d_get_area_quad (a, b, c, d) = getArea [a, b, c, d] := rfl

/-- TIE: generated `Mesh2D._tri_centroid` = hand model `triCentroid`. -/
theorem mesh2d_tri_centroid_eq_model (a b c : V2 α) :
    mesh2d_tri_centroid (a, b, c) = triCentroid a b c := rfl

/-- Generated `Mesh2D._face_center` and `Mesh2D._tri_centroid` coincide on triangles (two
generated kernels of two Python functions). -/
theorem mesh2d_face_center_tri_eq_tri_centroid (t : V2 α × V2 α × V2 α) :
    mesh2d_face_center_tri t = mesh2d_tri_centroid t := rfl

/-- TIE: the hand model's `faceArea` / per-face centre on an indexed triangle / quad are the
generated kernels applied to the looked-up vertices. -/
theorem faceArea_eq_generated (vs : List (V2 α)) (i j k l : Nat) :
    faceArea vs [i, j, k] =
      mesh2d_get_area_tri (vs.getD i ⟨0, 0⟩, vs.getD j ⟨0, 0⟩, vs.getD k ⟨0, 0⟩) ∧
    faceArea vs [i, j, k, l] =
      mesh2d_get_area_quad (vs.getD i ⟨0, 0⟩, vs.getD j ⟨0, 0⟩, vs.getD k ⟨0, 0⟩, vs.getD l ⟨0, 0⟩) :=
  ⟨rfl, rfl⟩

/-! ### The quad split (`Kern.diag02`, `stdKern`) -/

/-- TIE: generated `Mesh2D._concave_quad_to_triangles(verts)` = the hand model's
`MeshCache.isPointInside` test of the midpoint of the diagonal `0–2` with the test vector
`(1, 0.00001)`: inside → diagonal `0–2`, else diagonal `1–3`. -/
theorem mesh2d_concave_quad_to_triangles_eq_model (v0 v1 v2 v3 : V2 α) :
    mesh2d_concave_quad_to_triangles (v0, v1, v2, v3) =
      if isPointInside [v0, v1, v2, v3]
          (⟨v0.x + (v2.x - v0.x) * (1 / 2), v0.y + (v2.y - v0.y) * (1 / 2)⟩ : V2 α) tv = true
      then split02 else split13 := by
  unfold mesh2d_concave_quad_to_triangles
  simp only []
  rw [counter4]
  unfold isPointInside
  simp only [decide_eq_true_eq]
  rfl

/-- Shape of the generated `Mesh2D._quad_to_triangles`: the loop comparing the turn direction
at the four corners with the first one, the concave routine at every exit. -/
theorem mesh2d_quad_to_triangles_shape (a b c d : V2 α) :
    mesh2d_quad_to_triangles (a, b, c, d) =
      if turnPos c d a = true then
        if turnPos b c d = true then
          if turnPos d a b = true then
            (if turnPos a b c = true then split02
             else mesh2d_concave_quad_to_triangles (a, b, c, d))
          else mesh2d_concave_quad_to_triangles (a, b, c, d)
        else mesh2d_concave_quad_to_triangles (a, b, c, d)
      else if turnPos b c d = true then mesh2d_concave_quad_to_triangles (a, b, c, d)
        else if turnPos d a b = true then mesh2d_concave_quad_to_triangles (a, b, c, d)
          else if turnPos a b c = true then mesh2d_concave_quad_to_triangles (a, b, c, d)
            else split02 := by
  unfold mesh2d_quad_to_triangles mesh2d_concave_quad_to_triangles turnPos split02
  rfl

/-- TIE: generated `Mesh2D._quad_to_triangles(verts)` = the split chosen by the hand model's
`(stdKern (1, 0.00001)).diag02` (the one geometric decision of `Model/MeshCache`). -/
theorem mesh2d_quad_to_triangles_eq_model (a b c d : V2 α) :
    mesh2d_quad_to_triangles (a, b, c, d) =
      if (stdKern (tv : V2 α)).diag02 a b c d = true then split02 else split13 := by
  rw [mesh2d_quad_to_triangles_shape, mesh2d_concave_quad_to_triangles_eq_model]
  unfold stdKern
  simp only []
  generalize isPointInside [a, b, c, d] _ _ = P
  cases turnPos c d a <;> cases turnPos b c d <;> cases turnPos d a b <;> cases turnPos a b c <;>
    cases P <;> rfl

/-- TIE: generated `Mesh2D._quad_centroid(verts)` = hand model
`quadCentroid (stdKern (1, 0.00001))` (area-weighted mean of the centroids of the two triangles
of the split chosen by `_quad_to_triangles`). -/
theorem mesh2d_quad_centroid_eq_model (a b c d : V2 α) :
    mesh2d_quad_centroid (a, b, c, d) = quadCentroid (stdKern (tv : V2 α)) a b c d := by
  have hc := mesh2d_concave_quad_to_triangles_eq_model a b c d
  unfold mesh2d_concave_quad_to_triangles split02 split13 at hc
  simp only [] at hc
  have hN := ite_cond_iff _ _ _ _ hc (by decide)
  unfold mesh2d_quad_centroid
  simp only []
  simp only [hN]
  unfold quadCentroid stdKern turnPos
  simp only [gt_iff_lt]
  generalize isPointInside [a, b, c, d] _ _ = P
  generalize decide (0 < (c.x - b.x) * (d.y - c.y) - (c.y - b.y) * (d.x - c.x)) = A1
  generalize decide (0 < (d.x - c.x) * (a.y - d.y) - (d.y - c.y) * (a.x - d.x)) = A2
  generalize decide (0 < (a.x - d.x) * (b.y - a.y) - (a.y - d.y) * (b.x - a.x)) = A3
  generalize decide (0 < (b.x - a.x) * (c.y - b.y) - (b.y - a.y) * (c.x - b.x)) = A4
  cases A1 <;> cases A2 <;> cases A3 <;> cases A4 <;> cases P <;> rfl

/-- TIE: the hand model's `faceAreaCentroid` (one entry of `face_area_centroids`) with the
literal kernel is the generated `_tri_centroid` / `_quad_centroid`. -/
theorem faceAreaCentroid_eq_generated (a b c d : V2 α) :
    faceAreaCentroid (stdKern (tv : V2 α)) [a, b, c] = mesh2d_tri_centroid (a, b, c) ∧
    faceAreaCentroid (stdKern (tv : V2 α)) [a, b, c, d] = mesh2d_quad_centroid (a, b, c, d) :=
  ⟨rfl, (mesh2d_quad_centroid_eq_model a b c d).symm⟩

/-- TIE: the hand model's `triangulateFace` (one face of `Mesh2D.triangulated`) on a quad picks
the vertex indices named by the generated `_quad_to_triangles` of the looked-up vertices. -/
theorem triangulateFace_eq_generated (vs : List (V2 α)) (i j k l : Nat) :
    triangulateFace (stdKern (tv : V2 α)) vs [i, j, k, l] =
      (mesh2d_quad_to_triangles
        (vs.getD i ⟨0, 0⟩, vs.getD j ⟨0, 0⟩, vs.getD k ⟨0, 0⟩, vs.getD l ⟨0, 0⟩)).map
        (fun t => [[i, j, k, l].getD t.1 0, [i, j, k, l].getD t.2.1 0, [i, j, k, l].getD t.2.2 0]) := by
  rw [mesh2d_quad_to_triangles_eq_model]
  simp only [triangulateFace]
  split_ifs <;> rfl

/-! ### Bounding box (`calcMinMax`, `readMin`, `readMax`, `readCenter`) -/

/-- The generated `Mesh2D._calculate_min_max` is the same scan as the generated
`Base2DIn2D._calculate_min_max` (two Python functions with the same loop). -/
theorem mesh2d_calculate_min_max_eq_base2d (vs : List (V2 α)) :
    mesh2d_calculate_min_max vs = base2d2_calculate_min_max vs := rfl

/-- The generated `Mesh3D._calculate_min_max` is the same scan as the generated
`Base2DIn3D._calculate_min_max`. -/
theorem mesh3d_calculate_min_max_eq_base2d (vs : List (V3 α)) :
    mesh3d_calculate_min_max vs = base2d3_calculate_min_max vs := rfl

/-- TIE: generated `Mesh2D._calculate_min_max` = hand model `MeshCache.calcMinMax`
(receiver invariant: at least one vertex). -/
theorem mesh2d_calculate_min_max_eq_model (v0 : V2 α) (rest : List (V2 α)) :
    mesh2d_calculate_min_max (v0 :: rest) = calcMinMax (v0 :: rest) := by
  rw [mesh2d_calculate_min_max_eq_base2d, C10g.base2d2_calculate_min_max_eq, calcMinMax_cons]

/-- TIE: generated `Mesh3D._calculate_min_max` = hand model `PolylineCache.calcMinMax3`
(the scan shared by the `Base2DIn3D` models). -/
theorem mesh3d_calculate_min_max_eq_model (v0 : V3 α) (rest : List (V3 α)) :
    mesh3d_calculate_min_max (v0 :: rest) = PolylineCache.calcMinMax3 (v0 :: rest) := by
  rw [mesh3d_calculate_min_max_eq_base2d, C10g.base2d3_calculate_min_max_eq, calcMinMax3_cons]

/-- Generated `Mesh2D.min` / `.max` are the components of the generated scan, `.center` their
midpoint. -/
theorem mesh2d_min_max_center_eq (vs : List (V2 α)) :
    mesh2d_min vs = (mesh2d_calculate_min_max vs).1 ∧
    mesh2d_max vs = (mesh2d_calculate_min_max vs).2 ∧
    mesh2d_center vs = ⟨((mesh2d_min vs).x + (mesh2d_max vs).x) / 2,
                        ((mesh2d_min vs).y + (mesh2d_max vs).y) / 2⟩ := ⟨rfl, rfl, rfl⟩

/-- Generated `Mesh3D.min` / `.max` are the components of the generated scan, `.center` their
midpoint. -/
theorem mesh3d_min_max_center_eq (vs : List (V3 α)) :
    mesh3d_min vs = (mesh3d_calculate_min_max vs).1 ∧
    mesh3d_max vs = (mesh3d_calculate_min_max vs).2 ∧
    mesh3d_center vs = ⟨((mesh3d_min vs).x + (mesh3d_max vs).x) / 2,
                        ((mesh3d_min vs).y + (mesh3d_max vs).y) / 2,
                        ((mesh3d_min vs).z + (mesh3d_max vs).z) / 2⟩ := ⟨rfl, rfl, rfl⟩

/-- TIE: generated `Mesh2D.min`, `.max`, `.center` = what the hand model's memoising getters
`readMin`, `readMax`, `readCenter` return on a freshly constructed mesh. -/
theorem mesh2d_min_max_center_eq_model (v0 : V2 α) (rest : List (V2 α)) (fs : List (List Nat)) :
    mesh2d_min (v0 :: rest) = (readMin (fresh (v0 :: rest) fs)).1 ∧
    mesh2d_max (v0 :: rest) = (readMax (fresh (v0 :: rest) fs)).1 ∧
    mesh2d_center (v0 :: rest) = (readCenter (fresh (v0 :: rest) fs)).1 ∧
    mesh2d_center (v0 :: rest) = trueCenter (v0 :: rest) := by
  have e := mesh2d_calculate_min_max_eq_model v0 rest
  obtain ⟨h1, h2, h3⟩ := mesh2d_min_max_center_eq (v0 :: rest)
  have hc : mesh2d_center (v0 :: rest) = trueCenter (v0 :: rest) := by
    rw [h3, h1, h2, e]; rfl
  refine ⟨by rw [h1, e]; rfl, by rw [h2, e]; rfl, ?_, hc⟩
  rw [hc]; rfl

/-! ### Mesh3D per-face kernels (`Model/MeshCache3.lean`) -/

/-- TIE (`rfl`, the hand model calls the generated kernels literally): `MeshCache3.faceNA` on a
triangle / quad is the generated `_calculate_normal_and_area_for_triangle / _for_quad`. -/
theorem faceNA_eq_generated (M : MathOps α) (a b c d : V3 α) :
    MeshCache3.faceNA M [a, b, c] = mesh3d_normal_area_tri M (a, b, c) ∧
    MeshCache3.faceNA M [a, b, c, d] = mesh3d_normal_area_quad M (a, b, c, d) := ⟨rfl, rfl⟩

/-- Generated `Mesh3D._get_tri_area` is the area component of the generated
`_calculate_normal_and_area_for_triangle`. -/
theorem mesh3d_get_tri_area_eq (M : MathOps α) (t : V3 α × V3 α × V3 α) :
    mesh3d_get_tri_area M t = (mesh3d_normal_area_tri M t).2 := rfl

/-- TIE: generated `Mesh3D._face_center` on a quad, read in the XY plane, is the hand model's
`faceCenter` of the projected vertices (the 3D `_face_centroids` are "handled as in the 2D
model", `Model/MeshCache3`), and its `z` is the mean of the four heights. -/
theorem mesh3d_face_center_quad_eq_model (a b c d : V3 α) :
    (⟨(mesh3d_face_center_quad (a, b, c, d)).x, (mesh3d_face_center_quad (a, b, c, d)).y⟩ : V2 α)
      = faceCenter [⟨a.x, a.y⟩, ⟨b.x, b.y⟩, ⟨c.x, c.y⟩, ⟨d.x, d.y⟩] ∧
    (mesh3d_face_center_quad (a, b, c, d)).z = ((((0 + a.z) + b.z) + c.z) + d.z) / 4 := by
  constructor
  · unfold mesh3d_face_center_quad faceCenter pySum
    simp only [List.map, List.foldl, List.length]
    norm_num
  · rfl

/-! ### Corollaries: theorems of `Props/C20` transported to the generated definitions -/

/-- The generated `2 × 3` vertex grid has `(2+1)·(3+1) = 12` vertices and its entry
`i·(3+1) + j` is the lattice point `base + (i·x_dim, j·y_dim)` (from `C20.grid_vertices_index`). -/
theorem mesh2d_grid_vertices_2x3_index (b : V2 α) (xd yd : α) (i j : ℕ) (hi : i ≤ 2) (hj : j ≤ 3) :
    (mesh2d_grid_vertices_2x3 b xd yd).length = 12 ∧
    (mesh2d_grid_vertices_2x3 b xd yd)[C20.idx 3 i j]? = some (C20.latticePt b xd yd i j) := by
  rw [mesh2d_grid_vertices_2x3_eq_model]
  exact ⟨C20.grid_vertices_length b 2 3 xd yd, C20.grid_vertices_index b 2 3 xd yd i j hi hj⟩

/-- The generated `2 × 3` centroid list has `2·3 = 6` entries; entry `i·3 + j` is the centre of
cell `(i, j)`, which is the generated `_face_center` of that cell's four generated lattice
points (from `C20.grid_centroids_index`, `C20.grid_centroid_is_face_center`). -/
theorem mesh2d_grid_centroids_2x3_index (b : V2 α) (xd yd : α) (i j : ℕ) (hi : i < 2) (hj : j < 3) :
    (mesh2d_grid_centroids_2x3 b xd yd).length = 6 ∧
    (mesh2d_grid_centroids_2x3 b xd yd)[i * 3 + j]? =
      some (mesh2d_face_center_quad (C20.latticePt b xd yd i j, C20.latticePt b xd yd (i + 1) j,
        C20.latticePt b xd yd (i + 1) (j + 1), C20.latticePt b xd yd i (j + 1))) := by
  rw [mesh2d_grid_centroids_2x3_eq_model, C20.grid_centroid_is_face_center]
  exact ⟨C20.grid_centroids_length b 2 3 xd yd, C20.grid_centroids_index b 2 3 xd yd i j hi hj⟩

/-- The generated `_domain_dimensions` never returns zero cells and `num · dim' = dom`: the
cells of the adjusted size tile the extent exactly (from `C20.domain_dimensions_exact`). -/
theorem mesh2d_domain_dimensions_exact [FloorRing α] (M : MathOps α)
    (hfloor : ∀ x : α, M.floor x = ((⌊x⌋ : ℤ) : α)) (dom dim : α) :
    (mesh2d_domain_dimensions M dom dim).2 ≠ 0 ∧
    (mesh2d_domain_dimensions M dom dim).2 * (mesh2d_domain_dimensions M dom dim).1 = dom := by
  rw [mesh2d_domain_dimensions_eq_model M hfloor]
  obtain ⟨h1, h2⟩ := C20.domain_dimensions_exact dom dim
  exact ⟨Int.cast_ne_zero.mpr h1, h2⟩

/-- The generated box of a mesh contains every vertex and is tight (from `C10.minMax2_spec`
through `C10g.base2d2_box_spec`). -/
theorem mesh2d_box_spec (v0 : V2 α) (rest : List (V2 α)) :
    ∀ v ∈ v0 :: rest,
      (mesh2d_min (v0 :: rest)).x ≤ v.x ∧ v.x ≤ (mesh2d_max (v0 :: rest)).x ∧
      (mesh2d_min (v0 :: rest)).y ≤ v.y ∧ v.y ≤ (mesh2d_max (v0 :: rest)).y :=
  (C10g.base2d2_box_spec v0 rest).2.2.1

/-! ### Non-vacuity: the generated kernels on concrete data (ℚ) -/

example : mesh2d_grid_vertices_2x1 (⟨1, 2⟩ : V2 ℚ) 3 5
    = [⟨1, 2⟩, ⟨1, 7⟩, ⟨4, 2⟩, ⟨4, 7⟩, ⟨7, 2⟩, ⟨7, 7⟩] := by decide +kernel

example : mesh2d_grid_centroids_2x1 (⟨1, 2⟩ : V2 ℚ) 3 5 = [⟨5 / 2, 9 / 2⟩, ⟨11 / 2, 9 / 2⟩] := by
  decide +kernel

/-- A concave (arrow-head) quad: the reflex corner is vertex 1, the generated routine splits
along `1–3`, and so does the hand model's kernel (the real `Mesh2D._quad_to_triangles` returns
`[(1, 2, 3), (3, 0, 1)]` on this input). -/
example : mesh2d_quad_to_triangles ((⟨4, -2⟩, ⟨1, 0⟩, ⟨4, 2⟩, ⟨0, 0⟩) :
    V2 ℚ × V2 ℚ × V2 ℚ × V2 ℚ) = [(1, 2, 3), (3, 0, 1)] := by decide +kernel

example : (stdKern (tv : V2 ℚ)).diag02 ⟨4, -2⟩ ⟨1, 0⟩ ⟨4, 2⟩ ⟨0, 0⟩ = false := by decide +kernel

example : mesh2d_quad_centroid ((⟨4, -2⟩, ⟨1, 0⟩, ⟨4, 2⟩, ⟨0, 0⟩) : V2 ℚ × V2 ℚ × V2 ℚ × V2 ℚ)
    = ⟨5 / 3, 0⟩ := by decide +kernel

example : mesh2d_quad_centroid ((⟨0, 0⟩, ⟨2, 0⟩, ⟨2, 2⟩, ⟨0, 2⟩) : V2 ℚ × V2 ℚ × V2 ℚ × V2 ℚ)
    = ⟨1, 1⟩ := by decide +kernel

/-- The floor hypothesis of `mesh2d_domain_dimensions_eq_model` is satisfiable (ℚ with
`Rat.floor`), and the kernel returns `(dom / 3, 3)` for `dom = 10`, `dim = 3`. -/
example : ∃ M : MathOps ℚ, (∀ x : ℚ, M.floor x = ((⌊x⌋ : ℤ) : ℚ)) ∧
    mesh2d_domain_dimensions M 10 3 = (10 / 3, 3) :=
  ⟨⟨id, id, id, id, id, id, fun _ x => x, 0, fun x => ((⌊x⌋ : ℤ) : ℚ)⟩, fun _ => rfl, by
    decide +kernel⟩

end Lbg.Props.C20g
