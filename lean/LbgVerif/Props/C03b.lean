/-
  C03 (mesh classes) — memoised derived values of `Mesh2D` are never stale, for every
  operation history.

  Model: `Model/MeshCache.lean` (hand-written literal transcription of `MeshBase` /
  `Mesh2D` slot handling; tied to the real code by `corr.py` through the driver op
  `model.mesh2d_history`).  Theorems: invariant `MInv` ("every filled slot holds the value a
  fresh mesh with the same vertices and faces computes"), `minv_fresh`,
  `minv_factory_grid`, `minv_step` for every operation, `minv_history` and
  `mread_after_history` (induction over the operation list: every length).
  Everything is generic in the quad-splitting kernel `K : Kern α`.
-/
import LbgVerif.Model.MeshCache
import LbgVerif.Lemmas.MeshCache
import LbgVerif.Lemmas.MeshKernels
import LbgVerif.Model.MeshCache3
import LbgVerif.Lemmas.MeshCache3
import Mathlib.Tactic.Ring
import Mathlib.Tactic.Linarith
import Mathlib.Algebra.Order.Field.Rat

set_option linter.unusedSectionVars false

namespace Lbg.Props.C03b
open Lbg Lbg.Gen Lbg.Lemmas Lbg.Model.MeshCache Lbg.Model.MeshCache3
variable {α : Type} [Field α] [LinearOrder α] [IsStrictOrderedRing α]

/-- "No cached value is stale": the faces index existing vertices (the constructor's
`_check_faces_input`) and every filled slot equals what a fresh `Mesh2D` with the same
vertices / faces computes.  A scalar `_face_areas = c` means: EVERY face has true area `c`. -/
structure MInv (K : Kern α) (s : Mesh2C α) : Prop where
  wf : ∀ f ∈ s.faces, ∀ i ∈ f, i < s.vertices.length
  area : ∀ a, s.area = some a → a = trueArea s.vertices s.faces
  fa_scalar : ∀ c, s.face_areas = some (.inl c) → ∀ f ∈ s.faces, faceArea s.vertices f = c
  fa_list : ∀ l, s.face_areas = some (.inr l) → l = trueFaceAreas s.vertices s.faces
  fc : ∀ l, s.face_centroids = some l → l = trueFaceCentroids s.vertices s.faces
  fac : ∀ l, s.face_area_centroids = some l → l = trueFaceAreaCentroids K s.vertices s.faces
  min : ∀ m, s.min = some m → m = (calcMinMax s.vertices).1
  max : ∀ m, s.max = some m → m = (calcMinMax s.vertices).2
  center : ∀ c, s.center = some c → c = trueCenter s.vertices
  centroid : ∀ c, s.centroid = some c → c = trueCentroid K s.vertices s.faces

/-- Side conditions the library documents: rotations use (cos, sin) on the unit circle,
mirror normals are unit vectors, a joined mesh is itself in a consistent state.  No condition
on scale factors (any `k`, even `0` or negative: areas scale by `k²`). -/
def Valid (K : Kern α) : Op α → Prop
  | .rotate c sn _ => c * c + sn * sn = 1
  | .reflect n _ => n.x * n.x + n.y * n.y = 1
  | .joinWith o => MInv K o
  | _ => True

/-! ### Reads on a fresh mesh -/

/-- The values a fresh mesh reports are the `true…` functions (by computation). -/
theorem fresh_reads (K : Kern α) (vs : List (V2 α)) (fs : List (List Nat)) :
    (readFaceAreas (fresh vs fs)).1 = trueFaceAreas vs fs ∧
    (readArea (fresh vs fs)).1 = trueArea vs fs ∧
    (readFaceCentroids (fresh vs fs)).1 = trueFaceCentroids vs fs ∧
    (readFaceAreaCentroids K (fresh vs fs)).1 = trueFaceAreaCentroids K vs fs ∧
    (readMin (fresh vs fs)).1 = (calcMinMax vs).1 ∧
    (readMax (fresh vs fs)).1 = (calcMinMax vs).2 ∧
    (readCenter (fresh vs fs)).1 = trueCenter vs ∧
    (readCentroid K (fresh vs fs)).1 = trueCentroid K vs fs :=
  ⟨rfl, rfl, rfl, rfl, rfl, rfl, rfl, rfl⟩

/-! ### Slot updates that keep the invariant -/

theorem minv_set_face_areas (K : Kern α) (s : Mesh2C α) (h : MInv K s) (l : List α)
    (hl : l = trueFaceAreas s.vertices s.faces) :
    MInv K { s with face_areas := some (.inr l) } :=
  ⟨h.wf, h.area, fun c hc => by simp at hc, fun l' hl' => by
    simp only [Option.some.injEq, Sum.inr.injEq] at hl'; rw [← hl']; exact hl,
    h.fc, h.fac, h.min, h.max, h.center, h.centroid⟩

theorem minv_set_area (K : Kern α) (s : Mesh2C α) (h : MInv K s) (a : α)
    (ha : a = trueArea s.vertices s.faces) : MInv K { s with area := some a } :=
  ⟨h.wf, fun a' ha' => by simp only [Option.some.injEq] at ha'; rw [← ha']; exact ha,
    h.fa_scalar, h.fa_list, h.fc, h.fac, h.min, h.max, h.center, h.centroid⟩

theorem minv_set_fc (K : Kern α) (s : Mesh2C α) (h : MInv K s) (l : List (V2 α))
    (hl : l = trueFaceCentroids s.vertices s.faces) :
    MInv K { s with face_centroids := some l } :=
  ⟨h.wf, h.area, h.fa_scalar, h.fa_list,
    fun l' hl' => by simp only [Option.some.injEq] at hl'; rw [← hl']; exact hl,
    h.fac, h.min, h.max, h.center, h.centroid⟩

theorem minv_set_fac (K : Kern α) (s : Mesh2C α) (h : MInv K s) (l : List (V2 α))
    (hl : l = trueFaceAreaCentroids K s.vertices s.faces) :
    MInv K { s with face_area_centroids := some l } :=
  ⟨h.wf, h.area, h.fa_scalar, h.fa_list, h.fc,
    fun l' hl' => by simp only [Option.some.injEq] at hl'; rw [← hl']; exact hl,
    h.min, h.max, h.center, h.centroid⟩

theorem minv_set_minmax (K : Kern α) (s : Mesh2C α) (h : MInv K s) (mn mx : V2 α)
    (hmn : mn = (calcMinMax s.vertices).1) (hmx : mx = (calcMinMax s.vertices).2) :
    MInv K { s with min := some mn, max := some mx } :=
  ⟨h.wf, h.area, h.fa_scalar, h.fa_list, h.fc, h.fac,
    fun m hm => by simp only [Option.some.injEq] at hm; rw [← hm]; exact hmn,
    fun m hm => by simp only [Option.some.injEq] at hm; rw [← hm]; exact hmx,
    h.center, h.centroid⟩

theorem minv_set_center (K : Kern α) (s : Mesh2C α) (h : MInv K s) (c : V2 α)
    (hc : c = trueCenter s.vertices) : MInv K { s with center := some c } :=
  ⟨h.wf, h.area, h.fa_scalar, h.fa_list, h.fc, h.fac, h.min, h.max,
    fun m hm => by simp only [Option.some.injEq] at hm; rw [← hm]; exact hc, h.centroid⟩

theorem minv_set_centroid (K : Kern α) (s : Mesh2C α) (h : MInv K s) (c : V2 α)
    (hc : c = trueCentroid K s.vertices s.faces) : MInv K { s with centroid := some c } :=
  ⟨h.wf, h.area, h.fa_scalar, h.fa_list, h.fc, h.fac, h.min, h.max, h.center,
    fun m hm => by simp only [Option.some.injEq] at hm; rw [← hm]; exact hc⟩

/-! ### Reads under the invariant: value = fresh value, new state keeps the invariant -/

/-- `face_areas` under a valid cache returns the true per-face areas (also when the cache
holds the scalar of a grid mesh) and leaves a valid cache. -/
theorem readFaceAreas_spec (K : Kern α) (s : Mesh2C α) (h : MInv K s) :
    (readFaceAreas s).1 = trueFaceAreas s.vertices s.faces ∧
    (readFaceAreas s).2.vertices = s.vertices ∧ (readFaceAreas s).2.faces = s.faces ∧
    MInv K (readFaceAreas s).2 := by
  unfold readFaceAreas
  cases hfa : s.face_areas with
  | none => exact ⟨rfl, rfl, rfl, minv_set_face_areas K s h _ rfl⟩
  | some v =>
    cases v with
    | inl c =>
      have hl : s.faces.map (fun _ => c) = trueFaceAreas s.vertices s.faces := by
        unfold trueFaceAreas
        apply List.map_congr_left
        intro f hf
        exact (h.fa_scalar c hfa f hf).symm
      exact ⟨hl, rfl, rfl, minv_set_face_areas K s h _ hl⟩
    | inr l => exact ⟨h.fa_list l hfa, rfl, rfl, h⟩

/-- `area` under a valid cache. -/
theorem readArea_spec (K : Kern α) (s : Mesh2C α) (h : MInv K s) :
    (readArea s).1 = trueArea s.vertices s.faces ∧
    (readArea s).2.vertices = s.vertices ∧ (readArea s).2.faces = s.faces ∧
    MInv K (readArea s).2 := by
  unfold readArea
  cases ha : s.area with
  | some a => exact ⟨h.area a ha, rfl, rfl, h⟩
  | none =>
    obtain ⟨h1, h2, h3, h4⟩ := readFaceAreas_spec K s h
    refine ⟨by simp only [h1]; rfl, h2, h3, minv_set_area K _ h4 _ ?_⟩
    rw [h1, h2, h3]; rfl

/-- `face_centroids` under a valid cache. -/
theorem readFaceCentroids_spec (K : Kern α) (s : Mesh2C α) (h : MInv K s) :
    (readFaceCentroids s).1 = trueFaceCentroids s.vertices s.faces ∧
    (readFaceCentroids s).2.vertices = s.vertices ∧ (readFaceCentroids s).2.faces = s.faces ∧
    MInv K (readFaceCentroids s).2 := by
  unfold readFaceCentroids
  cases hc : s.face_centroids with
  | some l => exact ⟨h.fc l hc, rfl, rfl, h⟩
  | none => exact ⟨rfl, rfl, rfl, minv_set_fc K s h _ rfl⟩

/-- `face_area_centroids` under a valid cache. -/
theorem readFaceAreaCentroids_spec (K : Kern α) (s : Mesh2C α) (h : MInv K s) :
    (readFaceAreaCentroids K s).1 = trueFaceAreaCentroids K s.vertices s.faces ∧
    (readFaceAreaCentroids K s).2.vertices = s.vertices ∧
    (readFaceAreaCentroids K s).2.faces = s.faces ∧
    MInv K (readFaceAreaCentroids K s).2 := by
  unfold readFaceAreaCentroids
  cases hc : s.face_area_centroids with
  | some l => exact ⟨h.fac l hc, rfl, rfl, h⟩
  | none => exact ⟨rfl, rfl, rfl, minv_set_fac K s h _ rfl⟩

/-- `min` under a valid cache. -/
theorem readMin_spec (K : Kern α) (s : Mesh2C α) (h : MInv K s) :
    (readMin s).1 = (calcMinMax s.vertices).1 ∧
    (readMin s).2.vertices = s.vertices ∧ (readMin s).2.faces = s.faces ∧
    MInv K (readMin s).2 := by
  unfold readMin
  cases hc : s.min with
  | some l => exact ⟨h.min l hc, rfl, rfl, h⟩
  | none => exact ⟨rfl, rfl, rfl, minv_set_minmax K s h _ _ rfl rfl⟩

/-- `max` under a valid cache. -/
theorem readMax_spec (K : Kern α) (s : Mesh2C α) (h : MInv K s) :
    (readMax s).1 = (calcMinMax s.vertices).2 ∧
    (readMax s).2.vertices = s.vertices ∧ (readMax s).2.faces = s.faces ∧
    MInv K (readMax s).2 := by
  unfold readMax
  cases hc : s.max with
  | some l => exact ⟨h.max l hc, rfl, rfl, h⟩
  | none => exact ⟨rfl, rfl, rfl, minv_set_minmax K s h _ _ rfl rfl⟩

/-- `center` under a valid cache. -/
theorem readCenter_spec (K : Kern α) (s : Mesh2C α) (h : MInv K s) :
    (readCenter s).1 = trueCenter s.vertices ∧
    (readCenter s).2.vertices = s.vertices ∧ (readCenter s).2.faces = s.faces ∧
    MInv K (readCenter s).2 := by
  unfold readCenter
  cases hc : s.center with
  | some l => exact ⟨h.center l hc, rfl, rfl, h⟩
  | none =>
    obtain ⟨a1, a2, a3, a4⟩ := readMin_spec K s h
    obtain ⟨b1, b2, b3, b4⟩ := readMax_spec K _ a4
    refine ⟨by simp only [a1, b1, a2]; rfl, b2.trans a2, b3.trans a3,
      minv_set_center K _ b4 _ ?_⟩
    rw [a1, b1, a2, b2, a2]; rfl

/-- `centroid` under a valid cache. -/
theorem readCentroid_spec (K : Kern α) (s : Mesh2C α) (h : MInv K s) :
    (readCentroid K s).1 = trueCentroid K s.vertices s.faces ∧
    (readCentroid K s).2.vertices = s.vertices ∧ (readCentroid K s).2.faces = s.faces ∧
    MInv K (readCentroid K s).2 := by
  unfold readCentroid
  cases hc : s.centroid with
  | some l => exact ⟨h.centroid l hc, rfl, rfl, h⟩
  | none =>
    obtain ⟨a1, a2, a3, a4⟩ := readFaceAreaCentroids_spec K s h
    obtain ⟨b1, b2, b3, b4⟩ := readFaceAreas_spec K _ a4
    obtain ⟨c1, c2, c3, c4⟩ := readArea_spec K _ b4
    refine ⟨by simp only [a1, b1, c1, a2, a3, b2, b3]; rfl, c2.trans (b2.trans a2),
      c3.trans (b3.trans a3), minv_set_centroid K _ c4 _ ?_⟩
    rw [a1, b1, c1, c2, c3, b2, b3, a2, a3]; rfl

/-! ### Fresh meshes and the pre-seeding factories -/

/-- A freshly constructed mesh (valid face indices, as the constructor checks) satisfies
the invariant: nothing is cached. -/
theorem minv_fresh (K : Kern α) (vs : List (V2 α)) (fs : List (List Nat))
    (hwf : ∀ f ∈ fs, ∀ i ∈ f, i < vs.length) : MInv K (fresh vs fs) := by
  refine ⟨hwf, ?_, ?_, ?_, ?_, ?_, ?_, ?_, ?_, ?_⟩
  all_goals (intro x hx; simp [fresh] at hx)

/-- The state `from_grid` / `from_polygon_grid` leave behind: scalar `_face_areas = c` and
(optionally) pre-computed centroids in `_face_centroids` and `_face_area_centroids`. -/
def gridState (vs : List (V2 α)) (fs : List (List Nat)) (c : α)
    (cents : Option (List (V2 α))) : Mesh2C α :=
  { fresh vs fs with face_areas := some (.inl c), face_centroids := cents,
                     face_area_centroids := cents }

/-- A grid factory state is consistent PROVIDED every face's true area is the cached scalar
(for `from_polygon_grid` this is the repaired defect: the scalar must be the ADJUSTED cell
size `_x_dim * _y_dim`, not the requested one) and the pre-computed centroids are the true
ones. -/
theorem minv_factory_grid (K : Kern α) (vs : List (V2 α)) (fs : List (List Nat)) (c : α)
    (cents : Option (List (V2 α))) (hwf : ∀ f ∈ fs, ∀ i ∈ f, i < vs.length)
    (hc : ∀ f ∈ fs, faceArea vs f = c)
    (hfc : ∀ l, cents = some l → l = trueFaceCentroids vs fs)
    (hfac : ∀ l, cents = some l → l = trueFaceAreaCentroids K vs fs) :
    MInv K (gridState vs fs c cents) := by
  refine ⟨hwf, ?_, ?_, ?_, hfc, hfac, ?_, ?_, ?_, ?_⟩
  · intro x hx; simp [gridState, fresh] at hx
  · intro c' hc' f hf
    simp only [gridState, Option.some.injEq, Sum.inl.injEq] at hc'
    rw [← hc']; exact hc f hf
  all_goals (intro x hx; simp [gridState, fresh] at hx)

/-- The cell `(x,y), (x+dx,y), (x+dx,y+dy), (x,y+dy)` of `_grid_faces` has
`_get_area = dx·dy` (positive cell sizes) and `_face_center = (x + dx/2, y + dy/2)`, the
values `from_grid` pre-seeds (`x_dim * y_dim`, `_grid_centroids`). -/
theorem grid_cell (x y dx dy : α) (hdx : 0 ≤ dx) (hdy : 0 ≤ dy) :
    getArea [⟨x, y⟩, ⟨x + dx, y⟩, ⟨x + dx, y + dy⟩, (⟨x, y + dy⟩ : V2 α)] = dx * dy ∧
    faceCenter [⟨x, y⟩, ⟨x + dx, y⟩, ⟨x + dx, y + dy⟩, (⟨x, y + dy⟩ : V2 α)] =
      ⟨x + dx / 2, y + dy / 2⟩ := by
  constructor
  · unfold getArea
    rw [shoelace_quad]
    simp only [V2.det, V2.sub]
    have : ((x + dx - x) * (y + dy - y) - (y + dy - y) * (x - (x + dx))) / 2 = dx * dy := by ring
    rw [this, abs_of_nonneg (mul_nonneg hdx hdy)]
  · simp only [faceCenter, pySum, List.map_cons, List.map_nil, List.foldl_cons, List.foldl_nil,
      List.length_cons, List.length_nil]
    ext <;> simp only [] <;> push_cast <;> ring

/-! ### Transforms -/

/-- Generic `_mesh_transform` step: new vertices that keep every face's `_get_area`. -/
theorem minv_meshTransform (K : Kern α) (s : Mesh2C α) (h : MInv K s) (vs' : List (V2 α))
    (hlen : vs'.length = s.vertices.length)
    (hfa : ∀ f ∈ s.faces, faceArea vs' f = faceArea s.vertices f) :
    MInv K (meshTransform s vs') := by
  have hT : trueFaceAreas vs' s.faces = trueFaceAreas s.vertices s.faces :=
    List.map_congr_left hfa
  refine ⟨?_, ?_, ?_, ?_, ?_, ?_, ?_, ?_, ?_, ?_⟩
  · intro f hf i hi
    show i < vs'.length
    rw [hlen]; exact h.wf f hf i hi
  · intro a ha
    show a = trueArea vs' s.faces
    unfold trueArea; rw [hT]; exact h.area a ha
  · intro c hc f hf
    show faceArea vs' f = c
    rw [hfa f hf]; exact h.fa_scalar c hc f hf
  · intro l hl
    show l = trueFaceAreas vs' s.faces
    rw [hT]; exact h.fa_list l hl
  all_goals (intro x hx; simp [meshTransform, fresh] at hx)

/-- Generic `_mesh_scale` step: new vertices that multiply every face's `_get_area` by
`k²` — exactly what `_transfer_properties_scale` does to `_face_areas` and `_area`.
(With the un-repaired `× k` this step is false.) -/
theorem minv_meshScale (K : Kern α) (s : Mesh2C α) (h : MInv K s) (vs' : List (V2 α)) (k : α)
    (hlen : vs'.length = s.vertices.length)
    (hfa : ∀ f ∈ s.faces, faceArea vs' f = faceArea s.vertices f * k ^ 2) :
    MInv K (meshScale s vs' k) := by
  have hT : trueFaceAreas vs' s.faces =
      (trueFaceAreas s.vertices s.faces).map (fun a => a * k ^ 2) := by
    unfold trueFaceAreas
    rw [List.map_map]
    exact List.map_congr_left hfa
  refine ⟨?_, ?_, ?_, ?_, ?_, ?_, ?_, ?_, ?_, ?_⟩
  · intro f hf i hi
    show i < vs'.length
    rw [hlen]; exact h.wf f hf i hi
  · intro a ha
    show a = trueArea vs' s.faces
    cases hsa : s.area with
    | none => simp [meshScale, fresh, hsa] at ha
    | some a0 =>
      simp only [meshScale, fresh, hsa, Option.some.injEq] at ha
      unfold trueArea
      rw [hT, pySum_map_mul_right, ← ha, h.area a0 hsa]; rfl
  · intro c hc f hf
    show faceArea vs' f = c
    cases hsa : s.face_areas with
    | none => simp [meshScale, fresh, hsa] at hc
    | some v =>
      cases v with
      | inl c0 =>
        simp only [meshScale, fresh, hsa, Option.some.injEq, Sum.inl.injEq] at hc
        rw [hfa f hf, h.fa_scalar c0 hsa f hf, hc]
      | inr l0 => simp [meshScale, fresh, hsa] at hc
  · intro l hl
    show l = trueFaceAreas vs' s.faces
    cases hsa : s.face_areas with
    | none => simp [meshScale, fresh, hsa] at hl
    | some v =>
      cases v with
      | inl c0 => simp [meshScale, fresh, hsa] at hl
      | inr l0 =>
        simp only [meshScale, fresh, hsa, Option.some.injEq, Sum.inr.injEq] at hl
        rw [hT, ← hl, h.fa_list l0 hsa]
  all_goals (intro x hx; simp [meshScale, fresh] at hx)

/-- `move` keeps the cache valid. -/
theorem minv_move (K : Kern α) (s : Mesh2C α) (h : MInv K s) (v : V2 α) :
    MInv K (move s v) :=
  minv_meshTransform K s h _ (by simp) (fun f hf => by
    unfold faceArea; rw [faceVerts_map _ _ _ (h.wf f hf), getArea_move])

/-- `rotate` (any (cos, sin) on the unit circle) keeps the cache valid. -/
theorem minv_rotate (K : Kern α) (s : Mesh2C α) (h : MInv K s) (c sn : α) (o : V2 α)
    (hcs : c * c + sn * sn = 1) : MInv K (rotate s c sn o) :=
  minv_meshTransform K s h _ (by simp) (fun f hf => by
    unfold faceArea; rw [faceVerts_map _ _ _ (h.wf f hf), getArea_rotate c sn hcs])

/-- `reflect` (unit normal) keeps the cache valid: unsigned areas survive the mirror. -/
theorem minv_reflect (K : Kern α) (s : Mesh2C α) (h : MInv K s) (n o : V2 α)
    (hn : n.x * n.x + n.y * n.y = 1) : MInv K (reflect s n o) :=
  minv_meshTransform K s h _ (by simp) (fun f hf => by
    unfold faceArea; rw [faceVerts_map _ _ _ (h.wf f hf), getArea_reflect n o hn])

/-- `scale(k, origin)` keeps the cache valid for EVERY factor `k`. -/
theorem minv_scale (K : Kern α) (s : Mesh2C α) (h : MInv K s) (k : α) (o : V2 α) :
    MInv K (scale s k o) :=
  minv_meshScale K s h _ k (by simp) (fun f hf => by
    unfold faceArea; rw [faceVerts_map _ _ _ (h.wf f hf), getArea_scale])

/-- `scale(k)` about the world origin keeps the cache valid for every `k`. -/
theorem minv_scaleWorld (K : Kern α) (s : Mesh2C α) (h : MInv K s) (k : α) :
    MInv K (scaleWorld s k) :=
  minv_meshScale K s h _ k (by simp) (fun f hf => by
    unfold faceArea; rw [faceVerts_map _ _ _ (h.wf f hf), getArea_scaleWorld])

/-- `duplicate()` (copies `_area`, `_face_areas`, `_face_centroids`, `_centroid`). -/
theorem minv_duplicate (K : Kern α) (s : Mesh2C α) (h : MInv K s) : MInv K (duplicate s) := by
  refine ⟨h.wf, h.area, h.fa_scalar, h.fa_list, h.fc, ?_, ?_, ?_, ?_, h.centroid⟩
  all_goals (intro x hx; simp [duplicate, meshTransform, fresh] at hx)

/-! ### Pattern removal, triangulation, join -/

/-- Generic removal step: the filtered per-face data stay aligned with the new faces as soon
as the new faces see (through the new vertex list) the points of the kept old faces. -/
theorem minv_transferFaceData (K : Kern α) (s : Mesh2C α) (h : MInv K s) (pat : List Bool)
    (vs' : List (V2 α)) (fs' : List (List Nat))
    (hwf : ∀ f ∈ fs', ∀ i ∈ f, i < vs'.length)
    (halign : zipFilter (s.faces.map (faceVerts s.vertices)) pat = fs'.map (faceVerts vs')) :
    MInv K (transferFaceData s pat (fresh vs' fs')) := by
  have key : ∀ {γ : Type} (φ : List (V2 α) → γ),
      zipFilter (s.faces.map (fun f => φ (faceVerts s.vertices f))) pat =
        fs'.map (fun f => φ (faceVerts vs' f)) := by
    intro γ φ
    have e1 : s.faces.map (fun f => φ (faceVerts s.vertices f)) =
        (s.faces.map (faceVerts s.vertices)).map φ := by rw [List.map_map]; rfl
    rw [e1, zipFilter_map, halign, List.map_map]; rfl
  refine ⟨hwf, ?_, ?_, ?_, ?_, ?_, ?_, ?_, ?_, ?_⟩
  · intro x hx; simp [transferFaceData, fresh] at hx
  · intro c hc f' hf'
    show faceArea vs' f' = c
    cases hsa : s.face_areas with
    | none => simp [transferFaceData, fresh, hsa] at hc
    | some v =>
      cases v with
      | inr l0 => simp [transferFaceData, fresh, hsa] at hc
      | inl c0 =>
        simp only [transferFaceData, fresh, hsa, Option.some.injEq, Sum.inl.injEq] at hc
        have hm : faceVerts vs' f' ∈ fs'.map (faceVerts vs') := List.mem_map_of_mem hf'
        rw [← halign] at hm
        obtain ⟨f, hf, hfe⟩ := List.mem_map.mp (mem_of_mem_zipFilter _ _ _ hm)
        unfold faceArea
        rw [← hfe, ← hc]
        exact h.fa_scalar c0 hsa f hf
  · intro l hl
    show l = trueFaceAreas vs' fs'
    cases hsa : s.face_areas with
    | none => simp [transferFaceData, fresh, hsa] at hl
    | some v =>
      cases v with
      | inl c0 => simp [transferFaceData, fresh, hsa] at hl
      | inr l0 =>
        simp only [transferFaceData, fresh, hsa, Option.some.injEq, Sum.inr.injEq] at hl
        rw [← hl, h.fa_list l0 hsa]
        exact key getArea
  · intro l hl
    show l = trueFaceCentroids vs' fs'
    cases hsa : s.face_centroids with
    | none => simp [transferFaceData, fresh, hsa] at hl
    | some l0 =>
      simp only [transferFaceData, fresh, hsa, Option.some.injEq] at hl
      rw [← hl, h.fc l0 hsa]
      exact key faceCenter
  all_goals (intro x hx; simp [transferFaceData, fresh] at hx)

/-- `remove_faces_only(pattern)` keeps the cache valid (filtered data stay aligned). -/
theorem minv_removeFacesOnly (K : Kern α) (s : Mesh2C α) (h : MInv K s) (pat : List Bool) :
    MInv K (removeFacesOnly s pat) :=
  minv_transferFaceData K s h pat _ _
    (fun f hf i hi => h.wf f (mem_of_mem_zipFilter _ _ _ hf) i hi)
    (zipFilter_map _ _ _)

/-- `remove_vertices(pattern)` keeps the cache valid: surviving faces are re-indexed to the
same points, and the per-face data are filtered by the derived face pattern. -/
theorem minv_removeVertices (K : Kern α) (s : Mesh2C α) (h : MInv K s) (vpat : List Bool) :
    MInv K (removeVertices s vpat) := by
  apply minv_transferFaceData K s h
  · intro f' hf' j hj
    obtain ⟨f, hf, rfl⟩ := List.mem_map.mp hf'
    obtain ⟨hfm, hk⟩ := List.mem_filter.mp hf
    obtain ⟨i, hi, rfl⟩ := List.mem_map.mp hj
    have hp : vpat.getD i false = true := by
      unfold faceKept at hk
      exact List.all_eq_true.mp hk i hi
    exact newIdx_lt _ _ _ hp (h.wf f hfm i hi)
  · rw [zipFilter_map, zipFilter_map_self, List.map_map]
    apply List.map_congr_left
    intro f hf
    exact (faceVerts_reindex _ _ _ (List.mem_filter.mp hf).2).symm

/-- The triangles of `triangulated()` only use vertex indices of the face they replace. -/
theorem triangulateFace_subset (K : Kern α) (vs : List (V2 α)) (f : List Nat) :
    ∀ f' ∈ triangulateFace K vs f, ∀ i ∈ f', i ∈ f := by
  intro f' hf' i hi
  unfold triangulateFace at hf'
  split at hf'
  · split_ifs at hf'
    · simp only [List.mem_cons, List.not_mem_nil, or_false] at hf'
      rcases hf' with rfl | rfl <;> simp only [List.mem_cons, List.not_mem_nil, or_false] at hi ⊢ <;> tauto
    · simp only [List.mem_cons, List.not_mem_nil, or_false] at hf'
      rcases hf' with rfl | rfl <;> simp only [List.mem_cons, List.not_mem_nil, or_false] at hi ⊢ <;> tauto
  · simp only [List.mem_cons, List.not_mem_nil, or_false] at hf'
    rw [hf'] at hi; exact hi

/-- `triangulated()` builds a brand-new mesh (nothing cached, valid indices). -/
theorem minv_triangulated (K : Kern α) (s : Mesh2C α) (h : MInv K s) :
    MInv K (triangulated K s) := by
  apply minv_fresh
  intro f' hf' i hi
  obtain ⟨f, hf, hft⟩ := List.mem_flatMap.mp hf'
  exact h.wf f hf i (triangulateFace_subset K s.vertices f f' hft i hi)

/-- The tuple `msh.face_areas` that `join_meshes` reads from a consistent mesh is the true
per-face area list (also when the cache holds the grid scalar). -/
theorem expandAreas_eq (K : Kern α) (s : Mesh2C α) (h : MInv K s) (a : α ⊕ List α)
    (ha : s.face_areas = some a) :
    expandAreas s.faces.length a = trueFaceAreas s.vertices s.faces := by
  cases a with
  | inr l => exact h.fa_list l ha
  | inl c =>
    simp only [expandAreas, trueFaceAreas]
    rw [← List.map_const']
    apply List.map_congr_left
    intro f hf
    exact (h.fa_scalar c ha f hf).symm

/-- `join_meshes([self, other])` of two consistent meshes is consistent: concatenated
per-face data line up with the concatenated (index-shifted) faces. -/
theorem minv_joinWith (K : Kern α) (s o : Mesh2C α) (h : MInv K s) (ho : MInv K o) :
    MInv K (joinWith s o) := by
  have hA : trueFaceAreas (s.vertices ++ o.vertices)
      (s.faces ++ o.faces.map (fun f => f.map (fun i => i + s.vertices.length))) =
      trueFaceAreas s.vertices s.faces ++ trueFaceAreas o.vertices o.faces := by
    unfold trueFaceAreas
    rw [List.map_append, List.map_map]
    congr 1
    · apply List.map_congr_left
      intro f hf
      unfold faceArea; rw [faceVerts_append_left _ _ _ (h.wf f hf)]
    · apply List.map_congr_left
      intro f _
      simp only [Function.comp, faceArea]; rw [faceVerts_append_shift]
  have hC : trueFaceCentroids (s.vertices ++ o.vertices)
      (s.faces ++ o.faces.map (fun f => f.map (fun i => i + s.vertices.length))) =
      trueFaceCentroids s.vertices s.faces ++ trueFaceCentroids o.vertices o.faces := by
    unfold trueFaceCentroids
    rw [List.map_append, List.map_map]
    congr 1
    · apply List.map_congr_left
      intro f hf
      rw [faceVerts_append_left _ _ _ (h.wf f hf)]
    · apply List.map_congr_left
      intro f _
      simp only [Function.comp]; rw [faceVerts_append_shift]
  refine ⟨?_, ?_, ?_, ?_, ?_, ?_, ?_, ?_, ?_, ?_⟩
  · intro f hf i hi
    show i < (s.vertices ++ o.vertices).length
    rw [List.length_append]
    rcases List.mem_append.mp hf with hf | hf
    · have := h.wf f hf i hi; omega
    · obtain ⟨f0, hf0, rfl⟩ := List.mem_map.mp hf
      obtain ⟨i0, hi0, rfl⟩ := List.mem_map.mp hi
      have := ho.wf f0 hf0 i0 hi0; omega
  · intro x hx; simp [joinWith, fresh] at hx
  · intro c hc
    cases h1 : s.face_areas <;> cases h2 : o.face_areas <;> simp [joinWith, fresh, h1, h2] at hc
  · intro l hl
    show l = trueFaceAreas (s.vertices ++ o.vertices) _
    cases h1 : s.face_areas with
    | none => simp [joinWith, fresh, h1] at hl
    | some a1 =>
      cases h2 : o.face_areas with
      | none => simp [joinWith, fresh, h1, h2] at hl
      | some a2 =>
        simp only [joinWith, fresh, h1, h2, Option.some.injEq, Sum.inr.injEq] at hl
        rw [← hl, expandAreas_eq K s h a1 h1, expandAreas_eq K o ho a2 h2]
        exact hA.symm
  · intro l hl
    show l = trueFaceCentroids (s.vertices ++ o.vertices) _
    cases h1 : s.face_centroids with
    | none => simp [joinWith, fresh, h1] at hl
    | some l1 =>
      cases h2 : o.face_centroids with
      | none => simp [joinWith, fresh, h1, h2] at hl
      | some l2 =>
        simp only [joinWith, fresh, h1, h2, Option.some.injEq] at hl
        rw [← hl, h.fc l1 h1, ho.fc l2 h2]
        exact hC.symm
  all_goals (intro x hx; simp [joinWith, fresh] at hx)

/-! ### Every step, every history -/

/-- **Every operation of the `Mesh2D` cache machine preserves the invariant.** -/
theorem minv_step (K : Kern α) (s : Mesh2C α) (op : Op α) (hv : Valid K op) (h : MInv K s) :
    MInv K (step K s op) := by
  cases op with
  | readArea => exact (readArea_spec K s h).2.2.2
  | readFaceAreas => exact (readFaceAreas_spec K s h).2.2.2
  | readFaceCentroids => exact (readFaceCentroids_spec K s h).2.2.2
  | readFaceAreaCentroids => exact (readFaceAreaCentroids_spec K s h).2.2.2
  | readMin => exact (readMin_spec K s h).2.2.2
  | readMax => exact (readMax_spec K s h).2.2.2
  | readCenter => exact (readCenter_spec K s h).2.2.2
  | readCentroid => exact (readCentroid_spec K s h).2.2.2
  | duplicate => exact minv_duplicate K s h
  | triangulated => exact minv_triangulated K s h
  | move v => exact minv_move K s h v
  | rotate c sn o => exact minv_rotate K s h c sn o hv
  | reflect n o => exact minv_reflect K s h n o hv
  | scale k o => exact minv_scale K s h k o
  | scaleWorld k => exact minv_scaleWorld K s h k
  | removeFacesOnly pat => exact minv_removeFacesOnly K s h pat
  | removeVertices vpat => exact minv_removeVertices K s h vpat
  | joinWith o => exact minv_joinWith K s o h hv

/-- The invariant holds after every history starting from any consistent state (a fresh
mesh, a factory state, …): induction over the operation list, every length. -/
theorem minv_history (K : Kern α) (s0 : Mesh2C α) (h0 : MInv K s0) (ops : List (Op α))
    (hv : ∀ op ∈ ops, Valid K op) : MInv K (ops.foldl (step K) s0) := by
  induction ops generalizing s0 with
  | nil => exact h0
  | cons op ops ih =>
    simp only [List.foldl_cons]
    exact ih _ (minv_step K s0 op (hv op List.mem_cons_self) h0)
      (fun o ho => hv o (List.mem_cons_of_mem _ ho))

/-- **C03 for Mesh2D.**  After an arbitrary history of reads, copies, transforms, scalings,
pattern removals, triangulations and joins — starting from any consistent state, in
particular a fresh mesh or a `from_grid` state — every derived property (`area`,
`face_areas`, `face_centroids`, `face_area_centroids`, `min`, `max`, `center`, `centroid`)
equals what a freshly constructed mesh with the same vertices and faces reports. -/
theorem mread_after_history (K : Kern α) (s0 : Mesh2C α) (h0 : MInv K s0) (ops : List (Op α))
    (hv : ∀ op ∈ ops, Valid K op) :
    let s := ops.foldl (step K) s0
    (readArea s).1 = (readArea (fresh s.vertices s.faces)).1 ∧
    (readFaceAreas s).1 = (readFaceAreas (fresh s.vertices s.faces)).1 ∧
    (readFaceCentroids s).1 = (readFaceCentroids (fresh s.vertices s.faces)).1 ∧
    (readFaceAreaCentroids K s).1 = (readFaceAreaCentroids K (fresh s.vertices s.faces)).1 ∧
    (readMin s).1 = (readMin (fresh s.vertices s.faces)).1 ∧
    (readMax s).1 = (readMax (fresh s.vertices s.faces)).1 ∧
    (readCenter s).1 = (readCenter (fresh s.vertices s.faces)).1 ∧
    (readCentroid K s).1 = (readCentroid K (fresh s.vertices s.faces)).1 := by
  intro s
  have hi : MInv K s := minv_history K s0 h0 ops hv
  exact ⟨(readArea_spec K s hi).1, (readFaceAreas_spec K s hi).1,
    (readFaceCentroids_spec K s hi).1, (readFaceAreaCentroids_spec K s hi).1,
    (readMin_spec K s hi).1, (readMax_spec K s hi).1, (readCenter_spec K s hi).1,
    (readCentroid_spec K s hi).1⟩

/-- The same, starting from a fresh mesh (the constructor's index check is the only
hypothesis on the data). -/
theorem mread_after_history_fresh (K : Kern α) (vs : List (V2 α)) (fs : List (List Nat))
    (hwf : ∀ f ∈ fs, ∀ i ∈ f, i < vs.length) (ops : List (Op α))
    (hv : ∀ op ∈ ops, Valid K op) :
    let s := ops.foldl (step K) (fresh vs fs)
    (readArea s).1 = trueArea s.vertices s.faces ∧
    (readFaceAreas s).1 = trueFaceAreas s.vertices s.faces ∧
    (readFaceCentroids s).1 = trueFaceCentroids s.vertices s.faces ∧
    (readCentroid K s).1 = trueCentroid K s.vertices s.faces := by
  intro s
  have hi : MInv K s := minv_history K _ (minv_fresh K vs fs hwf) ops hv
  exact ⟨(readArea_spec K s hi).1, (readFaceAreas_spec K s hi).1,
    (readFaceCentroids_spec K s hi).1, (readCentroid_spec K s hi).1⟩

/-! ### The per-face kernels of the model are the generated kernels -/

/-- On 3- and 4-vertex faces the model's `_get_area`, `_face_center`, `_tri_centroid` are
the py2lean-generated `mesh2d_*` kernels (so C01's exactness theorems apply to every value
the invariant mentions). -/
theorem kernels_are_generated (a b c d : V2 α) :
    getArea [a, b, c] = mesh2d_get_area_tri (a, b, c) ∧
    getArea [a, b, c, d] = mesh2d_get_area_quad (a, b, c, d) ∧
    faceCenter [a, b, c] = mesh2d_face_center_tri (a, b, c) ∧
    faceCenter [a, b, c, d] = mesh2d_face_center_quad (a, b, c, d) ∧
    triCentroid a b c = mesh2d_tri_centroid (a, b, c) := by
  refine ⟨?_, ?_, ?_, ?_, ?_⟩
  · rw [mesh2d_get_area_tri_det, getArea, shoelace_triangle]
  · rw [mesh2d_get_area_quad_shoelace, getArea]
  · simp only [faceCenter, mesh2d_face_center_tri, pySum, List.map_cons, List.map_nil,
      List.foldl_cons, List.foldl_nil, List.length_cons, List.length_nil]
    ext <;> simp only [] <;> push_cast <;> ring
  · simp only [faceCenter, mesh2d_face_center_quad, pySum, List.map_cons, List.map_nil,
      List.foldl_cons, List.foldl_nil, List.length_cons, List.length_nil]
    ext <;> simp only [] <;> push_cast <;> ring
  · simp only [triCentroid, mesh2d_tri_centroid, pySum, List.foldl_cons, List.foldl_nil]

/-! ### Non-vacuity: a concrete mesh (a quad and a triangle), a history with a read before
a scale (the history that used to return `area × 3` instead of `× 9`), a rotation and a
mirror satisfying `Valid`, a removal and a join. -/

/-- Example mesh: unit-height rectangle `2 × 1` plus a triangle. -/
def exVs : List (V2 ℚ) := [⟨0, 0⟩, ⟨2, 0⟩, ⟨2, 1⟩, ⟨0, 1⟩, ⟨3, 3⟩]
def exFs : List (List Nat) := [[0, 1, 2, 3], [1, 4, 2]]
def exK : Kern ℚ := ⟨fun _ _ _ _ => true⟩

example : ∀ f ∈ exFs, ∀ i ∈ f, i < exVs.length := by decide

example : trueArea exVs exFs = 5 / 2 := by decide +kernel

example : Valid exK (Op.rotate (0 : ℚ) 1 ⟨1, 1⟩) ∧ Valid exK (Op.reflect (⟨3 / 5, 4 / 5⟩ : V2 ℚ) ⟨0, 0⟩) ∧
    Valid exK (Op.joinWith (fresh exVs exFs)) :=
  ⟨by simp [Valid], by simp [Valid]; norm_num, minv_fresh exK exVs exFs (by decide)⟩

example :
    (readArea ([Op.readArea, Op.scale 3 ⟨1, 1⟩, Op.rotate 0 1 ⟨0, 0⟩,
        Op.removeFacesOnly [true, false], Op.joinWith (fresh exVs exFs), Op.readFaceAreas,
        Op.scaleWorld (1 / 2)].foldl (step exK) (fresh exVs exFs))).1 = 41 / 8 := by
  decide +kernel

/-- `from_grid`-like state: one `2 × 1` cell with the scalar `2` cached. -/
example : MInv exK (gridState [⟨0, 0⟩, ⟨2, 0⟩, ⟨2, 1⟩, ⟨0, 1⟩] [[0, 1, 2, 3]] 2 none) :=
  minv_factory_grid exK _ _ _ _ (by decide) (by decide +kernel) (by simp) (by simp)

/-! ## Mesh3D: `_area`, `_face_areas`, `_face_normals` (model `Model/MeshCache3.lean`) -/

/-- "No cached value is stale" for `Mesh3D`: filled `_area` / `_face_areas` / `_face_normals`
hold what `_calculate_face_areas_and_normals` computes from the current vertices and faces
(a single cached `Vector3D` / scalar means: EVERY face has it), and — because the
`face_areas` getter is keyed on `_face_normals` — filled normals imply filled areas. -/
structure MInv3 (M : MathOps α) (s : Mesh3C α) : Prop where
  wf : ∀ f ∈ s.faces, ∀ i ∈ f, i < s.vertices.length
  area : ∀ a, s.area = some a → a = trueArea3 M s.vertices s.faces
  fa_scalar : ∀ c, s.face_areas = some (.inl c) →
    ∀ f ∈ s.faces, (faceNA M (faceVerts3 s.vertices f)).2 = c
  fa_list : ∀ l, s.face_areas = some (.inr l) → l = trueFaceAreas3 M s.vertices s.faces
  fn_single : ∀ n, s.face_normals = some (.inl n) →
    ∀ f ∈ s.faces, (faceNA M (faceVerts3 s.vertices f)).1 = n
  fn_list : ∀ l, s.face_normals = some (.inr l) → l = trueFaceNormals M s.vertices s.faces
  fn_fa : s.face_normals ≠ none → s.face_areas ≠ none

/-- Side conditions: `rigid g` (rotate / rotate_xy / reflect) must keep every face area
(normals are dropped by `_mesh_transform`, so nothing is asked about them); scale factors are
non-zero (a zero factor collapses the mesh while `_mesh_scale` keeps the cached normals). -/
def Valid3 (M : MathOps α) : Op3 α → Prop
  | .rigid g => ∀ pts, (faceNA M (pts.map g)).2 = (faceNA M pts).2
  | .scale k _ => k ≠ 0
  | .scaleWorld k => k ≠ 0
  | _ => True

/-- `Mesh3D.rotate_xy` (any (cos, sin) on the unit circle) is an admissible `rigid` map. -/
theorem valid3_rotateXY (M : MathOps α) (c sn : α) (h : c * c + sn * sn = 1) (o : V3 α) :
    Valid3 M (Op3.rigid (ptRotateXY3 c sn o)) :=
  fun pts => faceNA_area_rotateXY M c sn h o pts

/-- `Mesh3D.reflect` (unit normal) is an admissible `rigid` map. -/
theorem valid3_reflect (M : MathOps α) (n o : V3 α)
    (hn : n.x * n.x + n.y * n.y + n.z * n.z = 1) : Valid3 M (Op3.rigid (ptReflect3 n o)) :=
  fun pts => faceNA_area_reflect M n o hn pts

/-- A fresh `Mesh3D` caches nothing. -/
theorem minv3_fresh (M : MathOps α) (vs : List (V3 α)) (fs : List (List Nat))
    (hwf : ∀ f ∈ fs, ∀ i ∈ f, i < vs.length) : MInv3 M (fresh3 vs fs) := by
  refine ⟨hwf, ?_, ?_, ?_, ?_, ?_, ?_⟩
  · intro x hx; simp [fresh3] at hx
  · intro x hx; simp [fresh3] at hx
  · intro x hx; simp [fresh3] at hx
  · intro x hx; simp [fresh3] at hx
  · intro x hx; simp [fresh3] at hx
  · intro hx; simp [fresh3] at hx

/-- The `Face3D.mesh_grid` factory state (scalar area, single normal) is consistent provided
every face really has that area and that normal. -/
theorem minv3_factory_grid (M : MathOps α) (vs : List (V3 α)) (fs : List (List Nat)) (c : α)
    (n : V3 α) (hwf : ∀ f ∈ fs, ∀ i ∈ f, i < vs.length)
    (hc : ∀ f ∈ fs, faceNA M (faceVerts3 vs f) = (n, c)) :
    MInv3 M { fresh3 vs fs with face_areas := some (.inl c), face_normals := some (.inl n) } := by
  refine ⟨hwf, ?_, ?_, ?_, ?_, ?_, ?_⟩
  · intro x hx; simp [fresh3] at hx
  · intro c' hc' f hf
    simp only [Option.some.injEq, Sum.inl.injEq] at hc'
    show (faceNA M (faceVerts3 vs f)).2 = c'
    rw [hc f hf, ← hc']
  · intro x hx; simp at hx
  · intro n' hn' f hf
    simp only [Option.some.injEq, Sum.inl.injEq] at hn'
    show (faceNA M (faceVerts3 vs f)).1 = n'
    rw [hc f hf, ← hn']
  · intro x hx; simp at hx
  · intro _; simp

/-- `_calculate_face_areas_and_normals` leaves a consistent state. -/
theorem minv3_calcNA (M : MathOps α) (s : Mesh3C α) (h : MInv3 M s) : MInv3 M (calcNA M s) := by
  refine ⟨h.wf, h.area, ?_, ?_, ?_, ?_, ?_⟩
  · intro x hx; simp [calcNA] at hx
  · intro l hl
    simp only [calcNA, Option.some.injEq, Sum.inr.injEq] at hl
    exact hl.symm
  · intro x hx; simp [calcNA] at hx
  · intro l hl
    simp only [calcNA, Option.some.injEq, Sum.inr.injEq] at hl
    exact hl.symm
  · intro _; simp [calcNA]

/-- `face_areas` under a valid cache: never `None`, equals the fresh value, leaves a valid
cache. -/
theorem readFaceAreas3_spec (M : MathOps α) (s : Mesh3C α) (h : MInv3 M s) :
    (readFaceAreas3 M s).1 = some (trueFaceAreas3 M s.vertices s.faces) ∧
    (readFaceAreas3 M s).2.vertices = s.vertices ∧ (readFaceAreas3 M s).2.faces = s.faces ∧
    MInv3 M (readFaceAreas3 M s).2 := by
  unfold readFaceAreas3
  cases hn : s.face_normals with
  | none => exact ⟨rfl, rfl, rfl, minv3_calcNA M s h⟩
  | some nv =>
    have hne : s.face_areas ≠ none := h.fn_fa (by rw [hn]; simp)
    cases ha : s.face_areas with
    | none => exact absurd ha hne
    | some av =>
      cases av with
      | inr l =>
        refine ⟨?_, rfl, rfl, h⟩
        show some l = _
        rw [h.fa_list l ha]
      | inl c =>
        have hl : s.faces.map (fun _ => c) = trueFaceAreas3 M s.vertices s.faces := by
          unfold trueFaceAreas3
          apply List.map_congr_left
          intro f hf
          exact (h.fa_scalar c ha f hf).symm
        refine ⟨?_, rfl, rfl, h.wf, h.area, ?_, ?_, fun n hx => h.fn_single n (hn.trans hx),
          fun l hx => h.fn_list l (hn.trans hx), ?_⟩
        · show some (s.faces.map (fun _ => c)) = _
          rw [hl]
        · intro x hx; simp at hx
        · intro l hl'
          simp only [Option.some.injEq, Sum.inr.injEq] at hl'
          rw [← hl']; exact hl
        · intro _; simp

/-- `face_normals` under a valid cache. -/
theorem readFaceNormals3_spec (M : MathOps α) (s : Mesh3C α) (h : MInv3 M s) :
    (readFaceNormals3 M s).1 = trueFaceNormals M s.vertices s.faces ∧
    (readFaceNormals3 M s).2.vertices = s.vertices ∧
    (readFaceNormals3 M s).2.faces = s.faces ∧ MInv3 M (readFaceNormals3 M s).2 := by
  unfold readFaceNormals3
  cases hn : s.face_normals with
  | none => exact ⟨rfl, rfl, rfl, minv3_calcNA M s h⟩
  | some nv =>
    cases nv with
    | inr l => exact ⟨h.fn_list l hn, rfl, rfl, h⟩
    | inl n =>
      have hl : s.faces.map (fun _ => n) = trueFaceNormals M s.vertices s.faces := by
        unfold trueFaceNormals
        apply List.map_congr_left
        intro f hf
        exact (h.fn_single n hn f hf).symm
      refine ⟨hl, rfl, rfl, h.wf, h.area, h.fa_scalar, h.fa_list, ?_, ?_, ?_⟩
      · intro x hx; simp at hx
      · intro l hl'
        simp only [Option.some.injEq, Sum.inr.injEq] at hl'
        rw [← hl']; exact hl
      · intro _; exact h.fn_fa (by rw [hn]; simp)

/-- `area` under a valid cache: never a `TypeError`, equals the fresh value. -/
theorem readArea3_spec (M : MathOps α) (s : Mesh3C α) (h : MInv3 M s) :
    (readArea3 M s).1 = some (trueArea3 M s.vertices s.faces) ∧
    (readArea3 M s).2.vertices = s.vertices ∧ (readArea3 M s).2.faces = s.faces ∧
    MInv3 M (readArea3 M s).2 := by
  unfold readArea3
  cases ha : s.area with
  | some a => exact ⟨by rw [h.area a ha], rfl, rfl, h⟩
  | none =>
    obtain ⟨h1, h2, h3, h4⟩ := readFaceAreas3_spec M s h
    simp only [h1]
    refine ⟨rfl, h2, h3, h4.wf, ?_, h4.fa_scalar, h4.fa_list, h4.fn_single, h4.fn_list, h4.fn_fa⟩
    intro a ha'
    simp only [Option.some.injEq] at ha'
    rw [← ha', h2, h3]; rfl

/-- Generic `Mesh3D._mesh_transform` step: a vertex map keeping every face area (normals
are dropped, areas and total area are carried). -/
theorem minv3_meshTransform (M : MathOps α) (s : Mesh3C α) (h : MInv3 M s) (g : V3 α → V3 α)
    (hg : ∀ pts, (faceNA M (pts.map g)).2 = (faceNA M pts).2) :
    MInv3 M (meshTransform3 s (s.vertices.map g)) := by
  have hfa : ∀ f ∈ s.faces, (faceNA M (faceVerts3 (s.vertices.map g) f)).2 =
      (faceNA M (faceVerts3 s.vertices f)).2 := by
    intro f hf; rw [faceVerts3_map _ _ _ (h.wf f hf), hg]
  have hT : trueFaceAreas3 M (s.vertices.map g) s.faces = trueFaceAreas3 M s.vertices s.faces :=
    List.map_congr_left hfa
  refine ⟨?_, ?_, ?_, ?_, ?_, ?_, ?_⟩
  · intro f hf i hi
    show i < (s.vertices.map g).length
    rw [List.length_map]; exact h.wf f hf i hi
  · intro a ha
    show a = trueArea3 M (s.vertices.map g) s.faces
    unfold trueArea3; rw [hT]; exact h.area a ha
  · intro c hc f hf
    show (faceNA M (faceVerts3 (s.vertices.map g) f)).2 = c
    rw [hfa f hf]; exact h.fa_scalar c hc f hf
  · intro l hl
    show l = trueFaceAreas3 M (s.vertices.map g) s.faces
    rw [hT]; exact h.fa_list l hl
  · intro x hx; simp [meshTransform3, fresh3] at hx
  · intro x hx; simp [meshTransform3, fresh3] at hx
  · intro hx; simp [meshTransform3, fresh3] at hx

/-- `Mesh3D.move` keeps the cache valid. -/
theorem minv3_move (M : MathOps α) (s : Mesh3C α) (h : MInv3 M s) (v : V3 α) :
    MInv3 M (move3 s v) :=
  minv3_meshTransform M s h _ (fun pts => by rw [faceNA_move])

/-- Generic `Mesh3D._mesh_scale` step (`k ≠ 0`): areas × `k²` as `_transfer_properties_scale`
does, normals unchanged as `_mesh_scale` assumes. -/
theorem minv3_meshScale (M : MathOps α)
    (hsqrt : ∀ x, 0 ≤ x → M.sqrt x * M.sqrt x = x ∧ 0 ≤ M.sqrt x)
    (s : Mesh3C α) (h : MInv3 M s) (g : V3 α → V3 α) (k : α) (hk : k ≠ 0)
    (hsub : ∀ p q, V3.sub (g p) (g q) = V3.smul k (V3.sub p q)) :
    MInv3 M (meshScale3 s (s.vertices.map g) k) := by
  have hna : ∀ f ∈ s.faces, faceNA M (faceVerts3 (s.vertices.map g) f) =
      ((faceNA M (faceVerts3 s.vertices f)).1, (faceNA M (faceVerts3 s.vertices f)).2 * k ^ 2) := by
    intro f hf
    rw [faceVerts3_map _ _ _ (h.wf f hf), faceNA_of_edges_scaled M hsqrt k hk g hsub]
  have hTA : trueFaceAreas3 M (s.vertices.map g) s.faces =
      (trueFaceAreas3 M s.vertices s.faces).map (fun a => a * k ^ 2) := by
    unfold trueFaceAreas3
    rw [List.map_map]
    apply List.map_congr_left
    intro f hf; rw [hna f hf]; rfl
  have hTN : trueFaceNormals M (s.vertices.map g) s.faces =
      trueFaceNormals M s.vertices s.faces := by
    unfold trueFaceNormals
    apply List.map_congr_left
    intro f hf; rw [hna f hf]
  refine ⟨?_, ?_, ?_, ?_, ?_, ?_, ?_⟩
  · intro f hf i hi
    show i < (s.vertices.map g).length
    rw [List.length_map]; exact h.wf f hf i hi
  · intro a ha
    show a = trueArea3 M (s.vertices.map g) s.faces
    cases hsa : s.area with
    | none => simp [meshScale3, fresh3, hsa] at ha
    | some a0 =>
      simp only [meshScale3, fresh3, hsa, Option.some.injEq] at ha
      unfold trueArea3
      rw [hTA, pySum_map_mul_right, ← ha, h.area a0 hsa]; rfl
  · intro c hc f hf
    show (faceNA M (faceVerts3 (s.vertices.map g) f)).2 = c
    cases hsa : s.face_areas with
    | none => simp [meshScale3, fresh3, hsa] at hc
    | some v =>
      cases v with
      | inl c0 =>
        simp only [meshScale3, fresh3, hsa, Option.some.injEq, Sum.inl.injEq] at hc
        rw [hna f hf, ← hc]
        show (faceNA M (faceVerts3 s.vertices f)).2 * k ^ 2 = c0 * k ^ 2
        rw [h.fa_scalar c0 hsa f hf]
      | inr l0 => simp [meshScale3, fresh3, hsa] at hc
  · intro l hl
    show l = trueFaceAreas3 M (s.vertices.map g) s.faces
    cases hsa : s.face_areas with
    | none => simp [meshScale3, fresh3, hsa] at hl
    | some v =>
      cases v with
      | inl c0 => simp [meshScale3, fresh3, hsa] at hl
      | inr l0 =>
        simp only [meshScale3, fresh3, hsa, Option.some.injEq, Sum.inr.injEq] at hl
        rw [hTA, ← hl, h.fa_list l0 hsa]
  · intro n hn f hf
    show (faceNA M (faceVerts3 (s.vertices.map g) f)).1 = n
    rw [hna f hf]
    exact h.fn_single n hn f hf
  · intro l hl
    show l = trueFaceNormals M (s.vertices.map g) s.faces
    rw [hTN]; exact h.fn_list l hl
  · intro hn
    have := h.fn_fa hn
    show (meshScale3 s (s.vertices.map g) k).face_areas ≠ none
    cases hsa : s.face_areas with
    | none => exact absurd hsa this
    | some v => cases v <;> simp [meshScale3, fresh3, hsa]

/-- `Mesh3D.scale(k, origin)`, `k ≠ 0` (negative factors included). -/
theorem minv3_scale (M : MathOps α)
    (hsqrt : ∀ x, 0 ≤ x → M.sqrt x * M.sqrt x = x ∧ 0 ≤ M.sqrt x)
    (s : Mesh3C α) (h : MInv3 M s) (k : α) (hk : k ≠ 0) (o : V3 α) :
    MInv3 M (scale3 s k o) :=
  minv3_meshScale M hsqrt s h _ k hk (ptScale3_sub k o)

/-- `Mesh3D.scale(k)` about the world origin, `k ≠ 0`. -/
theorem minv3_scaleWorld (M : MathOps α)
    (hsqrt : ∀ x, 0 ≤ x → M.sqrt x * M.sqrt x = x ∧ 0 ≤ M.sqrt x)
    (s : Mesh3C α) (h : MInv3 M s) (k : α) (hk : k ≠ 0) :
    MInv3 M (scaleWorld3 s k) :=
  minv3_meshScale M hsqrt s h _ k hk (ptScaleWorld3_sub k)

/-- `Mesh3D.duplicate()`. -/
theorem minv3_duplicate (M : MathOps α) (s : Mesh3C α) (h : MInv3 M s) :
    MInv3 M (duplicate3 s) :=
  ⟨h.wf, h.area, h.fa_scalar, h.fa_list, h.fn_single, h.fn_list, h.fn_fa⟩

/-- `Mesh3D.remove_faces_only(pattern)`: the filtered `_face_areas` stay aligned with the
kept faces; normals and total area start empty. -/
theorem minv3_removeFacesOnly (M : MathOps α) (s : Mesh3C α) (h : MInv3 M s)
    (pat : List Bool) : MInv3 M (removeFacesOnly3 s pat) := by
  refine ⟨?_, ?_, ?_, ?_, ?_, ?_, ?_⟩
  · intro f hf i hi
    exact h.wf f (mem_of_mem_zipFilter _ _ _ hf) i hi
  · intro x hx; simp [removeFacesOnly3, fresh3] at hx
  · intro c hc f hf
    show (faceNA M (faceVerts3 s.vertices f)).2 = c
    cases hsa : s.face_areas with
    | none => simp [removeFacesOnly3, fresh3, hsa] at hc
    | some v =>
      cases v with
      | inr l0 => simp [removeFacesOnly3, fresh3, hsa] at hc
      | inl c0 =>
        simp only [removeFacesOnly3, fresh3, hsa, Option.some.injEq, Sum.inl.injEq] at hc
        rw [← hc]
        exact h.fa_scalar c0 hsa f (mem_of_mem_zipFilter _ _ _ hf)
  · intro l hl
    show l = trueFaceAreas3 M s.vertices (zipFilter s.faces pat)
    cases hsa : s.face_areas with
    | none => simp [removeFacesOnly3, fresh3, hsa] at hl
    | some v =>
      cases v with
      | inl c0 => simp [removeFacesOnly3, fresh3, hsa] at hl
      | inr l0 =>
        simp only [removeFacesOnly3, fresh3, hsa, Option.some.injEq, Sum.inr.injEq] at hl
        rw [← hl, h.fa_list l0 hsa]
        exact zipFilter_map _ _ _
  · intro x hx; simp [removeFacesOnly3, fresh3] at hx
  · intro x hx; simp [removeFacesOnly3, fresh3] at hx
  · intro hx; simp [removeFacesOnly3, fresh3] at hx

/-- **Every operation of the (reduced) `Mesh3D` cache machine preserves the invariant.** -/
theorem minv3_step (M : MathOps α)
    (hsqrt : ∀ x, 0 ≤ x → M.sqrt x * M.sqrt x = x ∧ 0 ≤ M.sqrt x)
    (s : Mesh3C α) (op : Op3 α) (hv : Valid3 M op) (h : MInv3 M s) :
    MInv3 M (step3 M s op) := by
  cases op with
  | readArea => exact (readArea3_spec M s h).2.2.2
  | readFaceAreas => exact (readFaceAreas3_spec M s h).2.2.2
  | readFaceNormals => exact (readFaceNormals3_spec M s h).2.2.2
  | duplicate => exact minv3_duplicate M s h
  | move v => exact minv3_move M s h v
  | rigid g => exact minv3_meshTransform M s h g hv
  | scale k o => exact minv3_scale M hsqrt s h k hv o
  | scaleWorld k => exact minv3_scaleWorld M hsqrt s h k hv
  | removeFacesOnly pat => exact minv3_removeFacesOnly M s h pat

/-- The `Mesh3D` invariant after every history (induction over the list). -/
theorem minv3_history (M : MathOps α)
    (hsqrt : ∀ x, 0 ≤ x → M.sqrt x * M.sqrt x = x ∧ 0 ≤ M.sqrt x)
    (s0 : Mesh3C α) (h0 : MInv3 M s0) (ops : List (Op3 α))
    (hv : ∀ op ∈ ops, Valid3 M op) : MInv3 M (ops.foldl (step3 M) s0) := by
  induction ops generalizing s0 with
  | nil => exact h0
  | cons op ops ih =>
    simp only [List.foldl_cons]
    exact ih _ (minv3_step M hsqrt s0 op (hv op List.mem_cons_self) h0)
      (fun o ho => hv o (List.mem_cons_of_mem _ ho))

/-- **C03 for Mesh3D (areas and face normals).**  After any history over
{reads, duplicate, move, rotate/reflect (area-preserving maps), scale `k ≠ 0`,
remove_faces_only}, `area`, `face_areas`, `face_normals` answer (never `None`) exactly what a
fresh `Mesh3D` with the same vertices and faces computes. -/
theorem mread3_after_history (M : MathOps α)
    (hsqrt : ∀ x, 0 ≤ x → M.sqrt x * M.sqrt x = x ∧ 0 ≤ M.sqrt x)
    (s0 : Mesh3C α) (h0 : MInv3 M s0) (ops : List (Op3 α))
    (hv : ∀ op ∈ ops, Valid3 M op) :
    let s := ops.foldl (step3 M) s0
    (readArea3 M s).1 = (readArea3 M (fresh3 s.vertices s.faces)).1 ∧
    (readFaceAreas3 M s).1 = (readFaceAreas3 M (fresh3 s.vertices s.faces)).1 ∧
    (readFaceNormals3 M s).1 = (readFaceNormals3 M (fresh3 s.vertices s.faces)).1 := by
  intro s
  have hi : MInv3 M s := minv3_history M hsqrt s0 h0 ops hv
  exact ⟨(readArea3_spec M s hi).1, (readFaceAreas3_spec M s hi).1,
    (readFaceNormals3_spec M s hi).1⟩

/-! ### Non-vacuity (Mesh3D): a concrete mesh satisfies the constructor check, the identity
is an admissible `rigid` map, and the factory hypothesis is satisfiable. -/

example (M : MathOps ℚ) :
    MInv3 M (fresh3 ([⟨0, 0, 0⟩, ⟨2, 0, 0⟩, ⟨2, 1, 0⟩, ⟨0, 1, 0⟩, ⟨3, 3, 1⟩] : List (V3 ℚ))
      [[0, 1, 2, 3], [1, 4, 2]]) :=
  minv3_fresh M _ _ (by decide)

example (M : MathOps ℚ) : Valid3 M (Op3.rigid (fun p : V3 ℚ => p)) ∧
    Valid3 M (Op3.scale (-2 : ℚ) ⟨1, 1, 1⟩) := by
  refine ⟨fun pts => ?_, by simp [Valid3]⟩
  simp

end Lbg.Props.C03b
