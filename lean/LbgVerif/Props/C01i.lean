/-
  C01i — polygons with a hole: the GENERATED definition of `Polygon2D.from_shape_with_hole`
  (`Gen/Holes.lean`, regenerated from `geometry2d/polygon.py`) is EQUAL to the hand model
  `Model.fromShapeWithHole` (`Model/HoleMerge.lean`, on which `Props/C01b` proves the signed
  area / vertex-count statements of the merged vertex list), for every `math.sqrt` strictly
  monotone on the non-negative numbers (the hand model keys its distance log by SQUARED
  distances, the code by distances).  `Props/C01h` evaluated the generated term on one instance
  and left the general statement to the correspondence check; here it is a theorem.
-/
import LbgVerif.Gen.Holes
import LbgVerif.Model.HoleMerge
import LbgVerif.Lemmas.HoleMerge
import LbgVerif.Lemmas.GenLoops2
import LbgVerif.Lemmas.GenTiesHoles
import LbgVerif.Props.C15g
import LbgVerif.Props.C01b
import Mathlib.Tactic.ClearExcept
import Mathlib.Algebra.Order.Field.Rat

set_option linter.unusedSimpArgs false
set_option linter.unusedVariables false
set_option linter.unusedSectionVars false

namespace Lbg.Props.C01i
open Lbg Lbg.Gen Lbg.Model Lbg.Model.Colinear Lbg.Lemmas Lbg.Lemmas.GenLoops2
  Lbg.Lemmas.GenTiesHoles Lbg.Lemmas.Colinear
open Lbg.Props.C15g (ctor3)
variable {α : Type} [Field α] [LinearOrder α] [IsStrictOrderedRing α]

/-- One orientation branch of the generated `from_shape_with_hole`: dictionary, selection,
splice and constructor check, against `mergeDetailed` on the oriented hole `H`. -/
local macro "hole_branch" M:term "," hs:term "," boundary:term "," H:term : tactic =>
  `(tactic| (
      extract_lets +onlyGivenNames G keys
      have hG : G = (writesFor $boundary 0 ($H)).map (fun e => (($M).sqrt e.1, intPair e.2)) :=
        gen_log_eq $M $boundary ($H) _ (fun b h => rfl)
      by_cases hL : writesFor $boundary 0 ($H) = []
      · have hk : keys = [] := by
          show List.map _ G = []
          rw [hG, hL]; rfl
        rw [if_pos hk]
        unfold mergeDetailed
        rw [hL]; rfl
      · obtain ⟨k, i, j, h1, h2, h3, h4, h5, h6, h7⟩ :=
          select_map $hs _ hL (writesFor_nonneg $boundary ($H) 0) ((0 : α), (0 : Int), (0 : Int))
        obtain ⟨hi, hj⟩ := writesFor_mem _ _ _ _ _ h3
        rw [← hG] at h4 h5 h6 h7
        have hk : ¬ keys = [] := h4
        rw [if_neg hk]
        extract_lets +onlyGivenNames mn hits
        have hmn : mn = ($M).sqrt k := h5
        have hhits : ¬ hits = [] := by
          show ¬ List.filter (fun p => decide (p.1 = mn)) G = []
          rw [hmn]; exact h6
        rw [if_neg hhits]
        extract_lets +onlyGivenNames item rot
        have hitem : item = intPair (i, j) := by
          show ((List.filter (fun p => decide (p.1 = mn)) G).getLastD (0, 0, 0)).2 = _
          rw [hmn]; exact h7
        have hrot : rot = (j : Int) := by
          show - - item.2 = _
          rw [hitem]; simp [intPair]
        rw [hrot, hitem]
        have e1 : (intPair (i, j)).1 = (i : Int) := rfl
        have e2 : (intPair (i, j)).2 = (j : Int) := rfl
        rw [e1, e2]
        have r1 : ¬ ((i : Int) < -(($boundary).length : Int) ∨ (($boundary).length : Int) ≤ (i : Int)) := by
          omega
        have r2 : ¬ ((j : Int) < -(($H).length : Int) ∨
            (($H).length : Int) ≤ (j : Int)) := by omega
        have t1 : Int.toNat (if (i : Int) < 0 then (($boundary).length : Int) + (i : Int) else (i : Int)) = i := by
          rw [toNat_ite_eq_pyIdx, pyIdx_nonneg]
        have t2 : Int.toNat (if (j : Int) < 0 then (($H).length : Int) + (j : Int)
            else (j : Int)) = j := by
          rw [toNat_ite_eq_pyIdx, pyIdx_nonneg]
        have t3 : Int.toNat ((j : Int) % (($H).length : Int)) = j % ($H).length := by
          omega
        simp only [r1, r2, if_false, t1, t2, t3, List.rotate_mod]
        unfold mergeDetailed
        rw [h1]
        simp only [h2]
        unfold ctor3 spliceAt holeInsert
        simp only [Option.map_some, Option.bind_some, List.append_assoc, List.cons_append,
          List.nil_append, List.singleton_append]
        split_ifs <;> rfl))

/-- TIE: generated `Polygon2D.from_shape_with_hole(boundary, hole)` (orientation test of the
hole against the boundary, the distance dictionary filled by the two nested loops with
`math.sqrt` keys, `min(keys)`, last write wins, `deque.rotate`, the slice insertion, the
`Polygon2D` constructor, the preset `_is_clockwise`) = hand model `Model.fromShapeWithHole`
(log of the writes with SQUARED keys) followed by the constructor check and paired with the
orientation flag of the boundary — for every `sqrt` that is strictly monotone on the
non-negative numbers.  No `IndexError` branch of the generated code is reachable. -/
theorem polygon2d_from_shape_with_hole_eq_model (M : MathOps α) (hs : StrictMonoNN M.sqrt) (boundary hole : List (V2 α)) :
    polygon2d_from_shape_with_hole M boundary hole =
      ((fromShapeWithHole boundary hole).bind ctor3).map
        (fun vs => (vs, polygon2d_are_clockwise boundary)) := by
  unfold polygon2d_from_shape_with_hole fromShapeWithHole orientHole mergeBoundaryAndHole
  extract_lets +onlyGivenNames accb dir acch
  have hdir : dir = polygon2d_are_clockwise boundary := rfl
  have hh : decide (acch < 0) = polygon2d_are_clockwise hole := rfl
  rw [← hdir]
  clear_value dir
  by_cases hcwh : acch < 0
  · rw [if_pos hcwh]
    have hh' : polygon2d_are_clockwise hole = true := by rw [← hh]; simpa using hcwh
    rw [hh']
    cases dir with
    | true =>
      rw [if_pos (show (true = true) from rfl), if_pos (show (true = true) from rfl)]
      hole_branch M, hs, boundary, hole.reverse
    | false =>
      rw [if_neg (show ¬ (false = true) by decide), if_neg (show ¬ (true = false) by decide)]
      hole_branch M, hs, boundary, hole
  · rw [if_neg hcwh]
    have hh' : polygon2d_are_clockwise hole = false := by rw [← hh]; simpa using hcwh
    rw [hh']
    cases dir with
    | true =>
      rw [if_pos (show (true = true) from rfl), if_neg (show ¬ (false = true) by decide)]
      hole_branch M, hs, boundary, hole
    | false =>
      rw [if_neg (show ¬ (false = true) by decide), if_pos (show (false = false) from rfl)]
      hole_branch M, hs, boundary, hole.reverse


/-- A `sqrt` obeying the law of the square root is strictly monotone on the non-negative
numbers. -/
theorem strictMonoNN_of_sqrt_law (M : MathOps α)
    (hsqrt : ∀ x, 0 ≤ x → M.sqrt x * M.sqrt x = x ∧ 0 ≤ M.sqrt x) : StrictMonoNN M.sqrt := by
  intro x y hx hy
  obtain ⟨ex, px⟩ := hsqrt x hx
  obtain ⟨ey, py⟩ := hsqrt y hy
  constructor
  · intro h
    rw [← ex, ← ey]
    exact mul_self_lt_mul_self px h
  · intro h
    by_contra hcon
    have hle : M.sqrt y ≤ M.sqrt x := not_lt.mp hcon
    have : M.sqrt y * M.sqrt y ≤ M.sqrt x * M.sqrt x := mul_self_le_mul_self py hle
    rw [ex, ey] at this
    exact absurd h (not_lt.mpr this)

/-- **`from_shape_with_hole` on regenerated code: signed area, vertex count, orientation flag**
(`Lemmas.merge_one_spec`, `C01b.orient_hole_shoelace` transported).  Whenever the generated
constructor returns a polygon `(r, flag)`: the preset `_is_clockwise` flag is the orientation
of the boundary; `r` has `|boundary| + |hole| + 2` vertices (the bridge is traversed twice);
and its shoelace sum is `shoelace boundary ∓ |shoelace hole|` — the hole is subtracted whatever
its input winding. -/
theorem polygon2d_from_shape_with_hole_spec (M : MathOps α) (hs : StrictMonoNN M.sqrt)
    (boundary hole r : List (V2 α)) (flag : Bool)
    (h : polygon2d_from_shape_with_hole M boundary hole = some (r, flag)) :
    flag = polygon2d_are_clockwise boundary ∧
    r.length = boundary.length + hole.length + 2 ∧
    shoelace r = shoelace boundary +
      (if polygon2d_are_clockwise boundary = true then 1 else -1) * |shoelace hole| := by
  rw [polygon2d_from_shape_with_hole_eq_model M hs] at h
  cases hm : fromShapeWithHole boundary hole with
  | none => rw [hm] at h; cases h
  | some r' =>
    rw [hm] at h
    simp only [Option.bind_some] at h
    cases hc : ctor3 r' with
    | none => rw [hc] at h; cases h
    | some r'' =>
      rw [hc] at h
      obtain ⟨e1, _⟩ := C15g.ctor3_eq_some r' r'' hc
      simp only [Option.map_some, Option.some.injEq, Prod.mk.injEq] at h
      obtain ⟨e2, e3⟩ := h
      subst e1 e2
      refine ⟨e3.symm, ?_⟩
      unfold fromShapeWithHole mergeBoundaryAndHole at hm
      set H := orientHole (polygon2d_are_clockwise boundary) hole with hH
      cases hd : mergeDetailed boundary H (writesFor boundary 0 H) with
      | none => rw [hd] at hm; cases hm
      | some res =>
        rw [hd] at hm
        simp only [Option.map_some, Option.some.injEq] at hm
        obtain ⟨j, hi, hj, er, _⟩ := mergeDetailed_spec
          (writesFor_valid boundary 0 H boundary.length (by omega)) hd
        rw [hm] at er
        obtain ⟨hcyc, hperm, _, _⟩ := merge_one_spec boundary H res.2.2 j hi hj
        obtain ⟨hsh, hpermH⟩ := C01b.orient_hole_shoelace (polygon2d_are_clockwise boundary) hole
        rw [← hH] at hsh hpermH
        constructor
        · rw [er, hperm.length_eq]
          simp only [List.length_append, List.length_cons, List.length_nil, hpermH.length_eq]
        · rw [er, shoelace_eq_cycSum, hcyc V2.det, ← shoelace_eq_cycSum, ← shoelace_eq_cycSum, hsh,
            det_antisymm (boundary.getD res.2.2 ⟨0, 0⟩) (H.getD j ⟨0, 0⟩)]
          ring

/-! ### Non-vacuity (ℚ; a monotone stand-in for `sqrt`) -/

/-- `sqrt := id` is strictly monotone. -/
def Mid : MathOps ℚ :=
  { sqrt := id, sin := id, cos := id, tan := id, acos := id, asin := id,
    atan2 := fun a _ => a, pi := 3, floor := id }

example : StrictMonoNN Mid.sqrt := fun _ _ _ _ => Iff.rfl

example : polygon2d_from_shape_with_hole Mid
    [⟨0, 0⟩, ⟨4, 0⟩, ⟨4, 4⟩, ⟨0, 4⟩] [⟨1, 1⟩, ⟨3, 1⟩, ⟨3, 3⟩, ⟨1, 3⟩]
    = some ([⟨0, 0⟩, ⟨4, 0⟩, ⟨4, 4⟩, ⟨0, 4⟩, ⟨1, 3⟩, ⟨3, 3⟩, ⟨3, 1⟩, ⟨1, 1⟩, ⟨1, 3⟩, ⟨0, 4⟩],
      false) := by decide +kernel

end Lbg.Props.C01i
