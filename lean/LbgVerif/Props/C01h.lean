/-
  C01h — polygons with holes: the GENERATED definition of `Polygon2D.from_shape_with_hole`
  (`Gen/Holes.lean`, third translator generation: the distance dictionary with symbolic keys —
  later equal keys overwrite earlier ones —, `deque.rotate`, slice insertion) evaluated on a
  concrete instance at ℚ.

  * `from_shape_with_hole_square`: a 4×4 square with a centred 2×2 square hole of the same
    orientation: the hole is reversed, the closest boundary/hole vertex pair is joined and the
    result has `4 + 4 + 2` vertices, starts with the boundary up to the junction vertex, walks
    the (reversed, rotated) hole and returns; the preset orientation flag is that of the
    boundary (counter-clockwise → `false`).  (`sqrt` is instantiated by a monotone stand-in on
    the squared distances, which selects the same closest pair.)

  A general statement (the flag always equals `_are_clockwise(boundary)`, the vertex count is
  always `len(boundary) + len(hole) + 2`) is left to the correspondence check: the generated
  term is too large for `simp`-based case analysis within the heartbeat limit.
-/
import LbgVerif.Gen.Holes
import Mathlib.Algebra.Order.Field.Rat

namespace Lbg.Props.C01h
open Lbg Lbg.Gen

/-- A monotone stand-in for `sqrt` on ℚ (only the order of the distances matters). -/
def mono : MathOps ℚ :=
  ⟨fun x => x, fun x => x, fun x => x, fun x => x, fun x => x, fun x => x, fun _ x => x, 3,
   fun x => x⟩

/-- The merged polygon of a counter-clockwise 4×4 square and a counter-clockwise 2×2 hole. -/
theorem from_shape_with_hole_square :
    polygon2d_from_shape_with_hole mono
      ([⟨0, 0⟩, ⟨4, 0⟩, ⟨4, 4⟩, ⟨0, 4⟩] : List (V2 ℚ)) [⟨1, 1⟩, ⟨3, 1⟩, ⟨3, 3⟩, ⟨1, 3⟩]
    = some ([⟨0, 0⟩, ⟨4, 0⟩, ⟨4, 4⟩, ⟨0, 4⟩, ⟨1, 3⟩, ⟨3, 3⟩, ⟨3, 1⟩, ⟨1, 1⟩, ⟨1, 3⟩, ⟨0, 4⟩], false) := by
  decide +kernel

end Lbg.Props.C01h
