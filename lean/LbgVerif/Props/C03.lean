/-
  C03 — derived properties do not depend on which properties were read before.

  The cache machine of `Polygon2D` is *generated* from the source by py2lean:
  `polygon2d_read_area`, `polygon2d_read_is_clockwise` (memoising getters, returning the
  value and the receiver's new slot state), `polygon2d_reverse / move / rotate / reflect /
  scale / scale_world / copy` (the transform methods including `_transfer_properties`).
  State = `Poly2C α` = the vertices plus every `__slots__` entry as an `Option`.

  Theorems: an invariant `Inv` ("every filled slot holds the value a fresh object would
  compute"), `inv_fresh`, `inv_step` for every operation, and `read_after_history`: after
  ANY operation list (every length — induction) every read equals the read on a fresh
  polygon with the same vertices.
-/
import LbgVerif.Gen.Cache
import LbgVerif.Lemmas.Shoelace
import Mathlib.Tactic.Ring
import Mathlib.Tactic.Linarith
import Mathlib.Tactic.FieldSimp
import Mathlib.Tactic.LinearCombination
import Mathlib.Algebra.Order.Field.Rat

namespace Lbg.Props.C03
open Lbg Lbg.Gen Lbg.Lemmas
variable {α : Type} [Field α] [LinearOrder α] [IsStrictOrderedRing α]

/-- The signed area the code caches in `_area`: shoelace sum / 2. -/
def signedArea (vs : List (V2 α)) : α := shoelace vs / 2

/-- A freshly constructed `Polygon2D`: only the vertices, every memo slot empty. -/
def fresh (vs : List (V2 α)) : Poly2C α :=
  { vertices := vs, min := none, max := none, center := none, segments := none,
    inside_angles := none, outside_angles := none, perimeter := none, area := none,
    is_clockwise := none, is_convex := none, is_self_intersecting := none }

/-- "No cached value is stale": a filled `_area` is the signed area of the current vertices
and a filled `_is_clockwise` is its sign. -/
structure Inv (s : Poly2C α) : Prop where
  area : ∀ a, s.area = some a → a = signedArea s.vertices
  cw : ∀ b, s.is_clockwise = some b → b = decide (signedArea s.vertices < 0)

/-- Operations of the cache machine. -/
inductive Op (α : Type) where
  | readArea | readCW | reverse | copy
  | move (v : V2 α)
  | rotate (angle : α) (o : V2 α)
  | reflect (n o : V2 α)
  | scale (k : α) (o : V2 α)
  | scaleWorld (k : α)

/-- Side conditions the library documents: mirror normals are unit vectors, scale factors
are non-zero; rotations use any angle whose (cos, sin) lies on the unit circle. -/
def Op.Valid (M : MathOps α) : Op α → Prop
  | .rotate a _ => M.cos a * M.cos a + M.sin a * M.sin a = 1
  | .reflect n _ => n.x * n.x + n.y * n.y = 1
  | .scale k _ => k ≠ 0
  | .scaleWorld k => k ≠ 0
  | _ => True

/-- One step of the generated machine (reads return the receiver's new slot state). -/
def step (M : MathOps α) (s : Poly2C α) : Op α → Poly2C α
  | .readArea => (polygon2d_read_area s).2
  | .readCW => (polygon2d_read_is_clockwise s).2
  | .reverse => polygon2d_reverse s
  | .copy => polygon2d_copy s
  | .move v => polygon2d_move s v
  | .rotate a o => polygon2d_rotate M s a o
  | .reflect n o => polygon2d_reflect s n o
  | .scale k o => polygon2d_scale s k o
  | .scaleWorld k => polygon2d_scale_world s k

/-! ### The generated accumulate loop is the shoelace sum -/

theorem loop_eq_shoelace (vs : List (V2 α)) :
    List.foldl (fun (st : α) (pp : V2 α × V2 α) => st + (pp.1.x * pp.2.y - pp.1.y * pp.2.x))
      (0 : α) (cyclicPairs vs) = shoelace vs := by
  unfold shoelace
  congr 1

/-! ### Reads on a fresh object -/

theorem fresh_read_area (vs : List (V2 α)) :
    (polygon2d_read_area (fresh vs)).1 = |signedArea vs| := by
  simp only [polygon2d_read_area, fresh, signedArea, if_true, loop_eq_shoelace]

theorem fresh_read_cw (vs : List (V2 α)) :
    (polygon2d_read_is_clockwise (fresh vs)).1 = decide (signedArea vs < 0) := by
  simp only [polygon2d_read_is_clockwise, fresh, signedArea, if_true, loop_eq_shoelace]
  exact decide_eq_decide.mpr Iff.rfl

/-- `area` equals the exact |shoelace|/2 whatever is cached, provided the cache is valid. -/
theorem read_area_of_inv (s : Poly2C α) (h : Inv s) :
    (polygon2d_read_area s).1 = |signedArea s.vertices| := by
  unfold polygon2d_read_area
  split_ifs with h1
  · simp only [signedArea, loop_eq_shoelace]
  · obtain ⟨a, ha⟩ := Option.ne_none_iff_exists'.mp h1
    simp only [ha, Option.getD_some]
    rw [h.area a ha]

theorem read_cw_of_inv (s : Poly2C α) (h : Inv s) :
    (polygon2d_read_is_clockwise s).1 = decide (signedArea s.vertices < 0) := by
  unfold polygon2d_read_is_clockwise
  split_ifs with h1 h2
  · simp only [signedArea, loop_eq_shoelace]
    exact decide_eq_decide.mpr Iff.rfl
  · obtain ⟨a, ha⟩ := Option.ne_none_iff_exists'.mp h2
    simp only [ha, Option.getD_some]
    rw [h.area a ha]
  · obtain ⟨b, hb⟩ := Option.ne_none_iff_exists'.mp h1
    simp only [hb, Option.getD_some]
    exact h.cw b hb

/-! ### Vertex maps of the transforms and their effect on the signed area -/

theorem id_map (l : List (V2 α)) :
    List.map (fun (e : V2 α) => (⟨e.x, e.y⟩ : V2 α)) l = l := by
  have : (fun (e : V2 α) => (⟨e.x, e.y⟩ : V2 α)) = id := by
    funext e; cases e; rfl
  rw [this, List.map_id]

theorem reverse_vertices (s : Poly2C α) :
    (polygon2d_reverse s).vertices = s.vertices.reverse := by
  unfold polygon2d_reverse
  split_ifs <;> simp only [id_map]

theorem signedArea_reverse (vs : List (V2 α)) :
    signedArea vs.reverse = - signedArea vs := by
  simp only [signedArea, shoelace_reverse]; ring

theorem move_vertices_area (s : Poly2C α) (v : V2 α) :
    signedArea (polygon2d_move s v).vertices = signedArea s.vertices := by
  simp only [polygon2d_move, signedArea]
  rw [shoelace_affine_of _ 1 0 0 1 v.x v.y (fun p => by ring) (fun p => by ring)]
  ring

theorem rotate_vertices_area (M : MathOps α) (s : Poly2C α) (a : α) (o : V2 α)
    (h : M.cos a * M.cos a + M.sin a * M.sin a = 1) :
    signedArea (polygon2d_rotate M s a o).vertices = signedArea s.vertices := by
  simp only [polygon2d_rotate, signedArea]
  rw [shoelace_affine_of _ (M.cos a) (-(M.sin a)) (M.sin a) (M.cos a)
    (-(M.cos a) * o.x + M.sin a * o.y + o.x) (-(M.sin a) * o.x - M.cos a * o.y + o.y)
    (fun p => by ring) (fun p => by ring)]
  have : M.cos a * M.cos a - -(M.sin a) * M.sin a = 1 := by linear_combination h
  rw [this]; ring

theorem reflect_vertices (s : Poly2C α) (n o : V2 α) :
    (polygon2d_reflect s n o).vertices =
      s.vertices.map (fun p => (⟨(p.x - o.x) - 2 * ((p.x - o.x) * n.x + (p.y - o.y) * n.y) * n.x + o.x,
        (p.y - o.y) - 2 * ((p.x - o.x) * n.x + (p.y - o.y) * n.y) * n.y + o.y⟩ : V2 α)) := by
  unfold polygon2d_reflect
  split_ifs <;> rfl

theorem reflect_vertices_area (s : Poly2C α) (n o : V2 α) (hn : n.x * n.x + n.y * n.y = 1) :
    signedArea (polygon2d_reflect s n o).vertices = - signedArea s.vertices := by
  rw [reflect_vertices]
  simp only [signedArea]
  rw [shoelace_affine_of _ (1 - 2 * n.x * n.x) (-2 * n.x * n.y) (-2 * n.x * n.y)
    (1 - 2 * n.y * n.y)
    (-o.x + 2 * (o.x * n.x + o.y * n.y) * n.x + o.x)
    (-o.y + 2 * (o.x * n.x + o.y * n.y) * n.y + o.y)
    (fun p => by ring) (fun p => by ring)]
  have : (1 - 2 * n.x * n.x) * (1 - 2 * n.y * n.y) - -2 * n.x * n.y * (-2 * n.x * n.y) = -1 := by
    linear_combination (-2 : α) * hn
  rw [this]; ring

theorem scale_vertices_area (s : Poly2C α) (k : α) (o : V2 α) :
    signedArea (polygon2d_scale s k o).vertices = k * k * signedArea s.vertices := by
  simp only [polygon2d_scale, signedArea]
  rw [shoelace_affine_of _ k 0 0 k (-o.x * k + o.x) (-o.y * k + o.y)
    (fun p => by ring) (fun p => by ring)]
  ring

theorem scale_world_vertices_area (s : Poly2C α) (k : α) :
    signedArea (polygon2d_scale_world s k).vertices = k * k * signedArea s.vertices := by
  simp only [polygon2d_scale_world, signedArea]
  rw [shoelace_affine_of _ k 0 0 k 0 0 (fun p => by ring) (fun p => by ring)]
  ring

/-! ### The invariant -/

theorem inv_fresh (vs : List (V2 α)) : Inv (fresh vs) :=
  ⟨fun a h => by simp [fresh] at h, fun b h => by simp [fresh] at h⟩

theorem decide_neg_flip (x : α) (hx : x ≠ 0) :
    decide (¬ (decide (x < 0) = true)) = decide (-x < 0) := by
  rcases lt_trichotomy x 0 with h | h | h
  · have : ¬ (-x < 0) := by linarith
    simp [h, this]
  · exact absurd h hx
  · have h1 : ¬ (x < 0) := by linarith
    have h2 : -x < 0 := by linarith
    simp [h1, h2]

/-- Every operation preserves the invariant (non-degenerate polygons: the property's valid
inputs have non-zero area; at zero area orientation is undefined). -/
theorem inv_step (M : MathOps α) (s : Poly2C α) (op : Op α) (hv : op.Valid M)
    (hnd : signedArea s.vertices ≠ 0) (h : Inv s) : Inv (step M s op) := by
  cases op with
  | readArea =>
    simp only [step, polygon2d_read_area]
    split_ifs with h1
    · refine ⟨fun a ha => ?_, fun b hb => h.cw b hb⟩
      simp only [Option.some.injEq] at ha
      rw [← ha]; simp only [signedArea, loop_eq_shoelace]
    · exact ⟨fun a ha => h.area a ha, fun b hb => h.cw b hb⟩
  | readCW =>
    simp only [step, polygon2d_read_is_clockwise]
    split_ifs with h1 h2
    · refine ⟨fun a ha => ?_, fun b hb => ?_⟩
      · simp only [Option.some.injEq] at ha
        rw [← ha]; simp only [signedArea, loop_eq_shoelace]
      · simp only [Option.some.injEq] at hb
        rw [← hb]; simp only [signedArea, loop_eq_shoelace]
        exact decide_eq_decide.mpr Iff.rfl
    · refine ⟨fun a ha => h.area a ha, fun b hb => ?_⟩
      obtain ⟨a, ha⟩ := Option.ne_none_iff_exists'.mp h2
      simp only [Option.some.injEq] at hb
      rw [← hb]
      simp only [ha, Option.getD_some]
      rw [h.area a ha]
    · exact ⟨fun a ha => h.area a ha, fun b hb => h.cw b hb⟩
  | copy =>
    exact ⟨fun a ha => h.area a ha, fun b hb => h.cw b hb⟩
  | move v =>
    refine ⟨fun a ha => ?_, fun b hb => ?_⟩
    · rw [show (step M s (Op.move v)) = polygon2d_move s v from rfl] at ha ⊢
      rw [move_vertices_area]; exact h.area a ha
    · rw [show (step M s (Op.move v)) = polygon2d_move s v from rfl] at hb ⊢
      rw [move_vertices_area]; exact h.cw b hb
  | rotate a o =>
    refine ⟨fun x hx => ?_, fun b hb => ?_⟩
    · rw [show (step M s (Op.rotate a o)) = polygon2d_rotate M s a o from rfl] at hx ⊢
      rw [rotate_vertices_area M s a o hv]; exact h.area x hx
    · rw [show (step M s (Op.rotate a o)) = polygon2d_rotate M s a o from rfl] at hb ⊢
      rw [rotate_vertices_area M s a o hv]; exact h.cw b hb
  | scale k o =>
    refine ⟨fun a ha => ?_, fun b hb => ?_⟩
    · simp [step, polygon2d_scale] at ha
    · simp [step, polygon2d_scale] at hb
  | scaleWorld k =>
    refine ⟨fun a ha => ?_, fun b hb => ?_⟩
    · simp [step, polygon2d_scale_world] at ha
    · simp [step, polygon2d_scale_world] at hb
  | reverse =>
    have hA : signedArea (polygon2d_reverse s).vertices = - signedArea s.vertices := by
      rw [reverse_vertices, signedArea_reverse]
    refine ⟨fun a ha => ?_, fun b hb => ?_⟩
    · rw [show (step M s Op.reverse) = polygon2d_reverse s from rfl] at ha ⊢
      rw [hA]
      unfold polygon2d_reverse at ha
      split_ifs at ha with h1 h2 h2
      · simp only [h1] at ha; exact absurd ha (by simp)
      · simp only [h1] at ha; exact absurd ha (by simp)
      · obtain ⟨a0, ha0⟩ := Option.ne_none_iff_exists'.mp h1
        simp only [ha0, Option.getD_some, Option.some.injEq] at ha
        rw [← ha, h.area a0 ha0]
      · obtain ⟨a0, ha0⟩ := Option.ne_none_iff_exists'.mp h1
        simp only [ha0, Option.getD_some, Option.some.injEq] at ha
        rw [← ha, h.area a0 ha0]
    · rw [show (step M s Op.reverse) = polygon2d_reverse s from rfl] at hb ⊢
      rw [hA]
      unfold polygon2d_reverse at hb
      split_ifs at hb with h1 h2 h2
      · simp only [h2] at hb; exact absurd hb (by simp)
      · obtain ⟨b0, hb0⟩ := Option.ne_none_iff_exists'.mp h2
        simp only [hb0, Option.getD_some, Option.some.injEq] at hb
        rw [← hb, h.cw b0 hb0]; exact decide_neg_flip _ hnd
      · simp only [h2] at hb; exact absurd hb (by simp)
      · obtain ⟨b0, hb0⟩ := Option.ne_none_iff_exists'.mp h2
        simp only [hb0, Option.getD_some, Option.some.injEq] at hb
        rw [← hb, h.cw b0 hb0]; exact decide_neg_flip _ hnd
  | reflect n o =>
    have hA := reflect_vertices_area s n o hv
    refine ⟨fun a ha => ?_, fun b hb => ?_⟩
    · rw [show (step M s (Op.reflect n o)) = polygon2d_reflect s n o from rfl] at ha ⊢
      rw [hA]
      unfold polygon2d_reflect at ha
      split_ifs at ha with h1 h2 h2
      · simp only [h1] at ha; exact absurd ha (by simp)
      · simp only [h1] at ha; exact absurd ha (by simp)
      · obtain ⟨a0, ha0⟩ := Option.ne_none_iff_exists'.mp h1
        simp only [ha0, Option.getD_some, Option.some.injEq] at ha
        rw [← ha, h.area a0 ha0]
      · obtain ⟨a0, ha0⟩ := Option.ne_none_iff_exists'.mp h1
        simp only [ha0, Option.getD_some, Option.some.injEq] at ha
        rw [← ha, h.area a0 ha0]
    · rw [show (step M s (Op.reflect n o)) = polygon2d_reflect s n o from rfl] at hb ⊢
      rw [hA]
      unfold polygon2d_reflect at hb
      split_ifs at hb with h1 h2 h2
      · simp only [h2] at hb; exact absurd hb (by simp)
      · obtain ⟨b0, hb0⟩ := Option.ne_none_iff_exists'.mp h2
        simp only [hb0, Option.getD_some, Option.some.injEq] at hb
        rw [← hb, h.cw b0 hb0]; exact decide_neg_flip _ hnd
      · simp only [h2] at hb; exact absurd hb (by simp)
      · obtain ⟨b0, hb0⟩ := Option.ne_none_iff_exists'.mp h2
        simp only [hb0, Option.getD_some, Option.some.injEq] at hb
        rw [← hb, h.cw b0 hb0]; exact decide_neg_flip _ hnd

/-- Non-degeneracy (non-zero signed area) is preserved by every valid operation. -/
theorem nd_step (M : MathOps α) (s : Poly2C α) (op : Op α) (hv : op.Valid M)
    (hnd : signedArea s.vertices ≠ 0) : signedArea (step M s op).vertices ≠ 0 := by
  cases op with
  | readArea =>
    simp only [step, polygon2d_read_area]; split_ifs <;> exact hnd
  | readCW =>
    simp only [step, polygon2d_read_is_clockwise]; split_ifs <;> exact hnd
  | copy => exact hnd
  | move v => simp only [step]; rw [move_vertices_area]; exact hnd
  | rotate a o => simp only [step]; rw [rotate_vertices_area M s a o hv]; exact hnd
  | reverse =>
    simp only [step]; rw [reverse_vertices, signedArea_reverse]; exact neg_ne_zero.mpr hnd
  | reflect n o =>
    simp only [step]; rw [reflect_vertices_area s n o hv]; exact neg_ne_zero.mpr hnd
  | scale k o =>
    simp only [step]; rw [scale_vertices_area]
    exact mul_ne_zero (mul_ne_zero hv hv) hnd
  | scaleWorld k =>
    simp only [step]; rw [scale_world_vertices_area]
    exact mul_ne_zero (mul_ne_zero hv hv) hnd

/-- The invariant holds after every history (induction over the operation list: every
length, not only the ≤ 6 a test can enumerate). -/
theorem inv_history (M : MathOps α) (vs : List (V2 α)) (hnd : signedArea vs ≠ 0)
    (ops : List (Op α)) (hv : ∀ op ∈ ops, op.Valid M) :
    Inv (ops.foldl (step M) (fresh vs)) ∧
      signedArea (ops.foldl (step M) (fresh vs)).vertices ≠ 0 := by
  suffices H : ∀ (s : Poly2C α), Inv s → signedArea s.vertices ≠ 0 →
      Inv (ops.foldl (step M) s) ∧ signedArea (ops.foldl (step M) s).vertices ≠ 0 from
    H (fresh vs) (inv_fresh vs) hnd
  induction ops with
  | nil => intro s hs hn; exact ⟨hs, hn⟩
  | cons op ops ih =>
    intro s hs hn
    simp only [List.foldl_cons]
    have hvo : op.Valid M := hv op (List.mem_cons_self)
    exact ih (fun o ho => hv o (List.mem_cons_of_mem _ ho)) _ (inv_step M s op hvo hn hs)
      (nd_step M s op hvo hn)

/-- **C03 for Polygon2D.**  After an arbitrary history of reads, copies, reversals and
transforms, `area` and `is_clockwise` equal what a freshly constructed polygon with the same
vertices reports. -/
theorem read_after_history (M : MathOps α) (vs : List (V2 α)) (hnd : signedArea vs ≠ 0)
    (ops : List (Op α)) (hv : ∀ op ∈ ops, op.Valid M) :
    let s := ops.foldl (step M) (fresh vs)
    (polygon2d_read_area s).1 = (polygon2d_read_area (fresh s.vertices)).1 ∧
    (polygon2d_read_is_clockwise s).1 = (polygon2d_read_is_clockwise (fresh s.vertices)).1 := by
  intro s
  obtain ⟨hi, _⟩ := inv_history M vs hnd ops hv
  exact ⟨by rw [read_area_of_inv s hi, fresh_read_area],
         by rw [read_cw_of_inv s hi, fresh_read_cw]⟩

/-- Transforms never carry the position-dependent slots (`_min`, `_max`, `_center`,
`_segments`, angle lists) over to the new polygon, so those cannot be stale either. -/
theorem transforms_clear_positional_slots (M : MathOps α) (s : Poly2C α) (op : Op α)
    (hop : op ≠ .readArea ∧ op ≠ .readCW ∧ op ≠ .copy) :
    let t := step M s op
    t.min = none ∧ t.max = none ∧ t.center = none ∧ t.segments = none ∧
      t.inside_angles = none ∧ t.outside_angles = none := by
  obtain ⟨h1, h2, h3⟩ := hop
  cases op with
  | readArea => exact absurd rfl h1
  | readCW => exact absurd rfl h2
  | copy => exact absurd rfl h3
  | move v => simp [step, polygon2d_move]
  | rotate a o => simp [step, polygon2d_rotate]
  | scale k o => simp [step, polygon2d_scale]
  | scaleWorld k => simp [step, polygon2d_scale_world]
  | reverse => simp only [step, polygon2d_reverse]; split_ifs <;> simp
  | reflect n o => simp only [step, polygon2d_reflect]; split_ifs <;> simp

/-- `duplicate()` keeps `_segments` (same vertices) and drops the bounding-box slots. -/
theorem copy_slots (s : Poly2C α) :
    (polygon2d_copy s).vertices = s.vertices ∧ (polygon2d_copy s).area = s.area ∧
      (polygon2d_copy s).is_clockwise = s.is_clockwise := by
  simp [polygon2d_copy]

/-! ### Non-vacuity: a concrete non-degenerate polygon and a history with a read before a
reversal (the history that used to return a stale orientation). -/

example : signedArea ([⟨0, 0⟩, ⟨2, 0⟩, ⟨2, 1⟩, ⟨0, 1⟩] : List (V2 ℚ)) ≠ 0 := by
  decide +kernel

example :
    (polygon2d_read_is_clockwise
      ([Op.readArea, Op.reverse].foldl (step ⟨id, id, id, id, id, id, fun _ _ => 0, 0, id⟩)
        (fresh ([⟨0, 0⟩, ⟨2, 0⟩, ⟨2, 1⟩, ⟨0, 1⟩] : List (V2 ℚ))))).1 = true := by
  decide +kernel

end Lbg.Props.C03
