/-
  C05 — "Triangulation exactly tiles a polygon with holes."   (PARTIAL)

  What is proved here:

  * §1–§3 about the predicates regenerated from `ladybug_geometry/triangulation.py`
    (`_area`, `_equals`, `_point_in_triangle`, `_intersects`):
      - `_area` is minus the doubled signed area (sign convention of earcut);
      - `_point_in_triangle` is the conjunction of three orientation tests, and for a
        positively oriented non-degenerate triangle it is exactly "p is a convex combination
        of a, b, c";
      - **`earcut_intersects_spec`**: `_intersects` is "(both segments are points and …) or
        (the segments are each other's reverse) or (the end points of each segment are on
        different sides of the other segment — `(area > 0) != (area > 0)` twice)", it is
        complete for proper crossings and sound (a `true` coming from the sign tests means
        the closed segments really meet; the open ones if no orientation value is zero);
  * §4 a certificate for the *output* of any triangulation routine (independent of the
    generated code): if the directed triangle edges cancel in pairs except for the input
    loops' own edges, the doubled triangle areas add up to the shoelace value of the boundary
    plus those of the (oppositely oriented) holes; and the fan shortcut of
    `Mesh2D.from_polygon_triangulated` has the area of the polygon.

  What is NOT proved: termination and global correctness of the ear-clipping loop
  (`_earcut_linked`, `_cure_local_intersections`, `_split_earcut`) and of hole bridging
  (`_eliminate_holes`, `_find_hole_bridge`); every actual output is certified by the harness
  with the decidable hypotheses of §4.
-/
import LbgVerif.Gen.Tri
import LbgVerif.Lemmas.Earcut
import LbgVerif.Lemmas.Tiling
import LbgVerif.Lemmas.Shoelace
import Mathlib.Tactic.Ring
import Mathlib.Tactic.Linarith
import Mathlib.Tactic.LinearCombination
import Mathlib.Tactic.Tauto
import Mathlib.Algebra.Order.Field.Rat

set_option linter.unusedSectionVars false

namespace Lbg.Props.C05
open Lbg Lbg.Gen Lbg.Lemmas
variable {α : Type} [Field α] [LinearOrder α] [IsStrictOrderedRing α]

/-! ## Predicates used in the statements -/

/-- Doubled signed area of the triangle `a, b, c`: `det(b − a, c − a)`; positive iff the
triangle is counter-clockwise in a y-up frame. -/
def triArea2 (a b c : V2 α) : α := V2.det (V2.sub b a) (V2.sub c a)

/-- `p = la·a + lb·b + lc·c` with non-negative weights summing to one: `p` lies in the
closed triangle `a, b, c`. -/
def InClosedTriangle (a b c p : V2 α) : Prop :=
  ∃ la lb lc : α, 0 ≤ la ∧ 0 ≤ lb ∧ 0 ≤ lc ∧ la + lb + lc = 1 ∧
    p.x = la * a.x + lb * b.x + lc * c.x ∧ p.y = la * a.y + lb * b.y + lc * c.y

/-- The point at parameter `s` on the segment `p → q`. -/
def segPoint (p q : V2 α) (s : α) : V2 α := V2.add p (V2.smul s (V2.sub q p))

/-- The OPEN segments `p1 q1` and `p2 q2` have a common point (parameters in `(0,1)`). -/
def OpenSegmentsMeet (p1 q1 p2 q2 : V2 α) : Prop :=
  ∃ s t : α, 0 < s ∧ s < 1 ∧ 0 < t ∧ t < 1 ∧ segPoint p1 q1 s = segPoint p2 q2 t

/-- The CLOSED segments `p1 q1` and `p2 q2` have a common point (parameters in `[0,1]`). -/
def ClosedSegmentsMeet (p1 q1 p2 q2 : V2 α) : Prop :=
  ∃ s t : α, 0 ≤ s ∧ s ≤ 1 ∧ 0 ≤ t ∧ t ≤ 1 ∧ segPoint p1 q1 s = segPoint p2 q2 t

/-- The third disjunct of `_intersects`: `(area(p1,q1,p2) > 0) != (area(p1,q1,q2) > 0)` and
`(area(p2,q2,p1) > 0) != (area(p2,q2,q1) > 0)`. -/
def SidesDiffer (p1 q1 p2 q2 : V2 α) : Prop :=
  SignDiffers (earcut_area p1 q1 p2) (earcut_area p1 q1 q2) ∧
  SignDiffers (earcut_area p2 q2 p1) (earcut_area p2 q2 q1)

/-! ## §1  `_area`, `_equals` -/

/-- `_area(p, q, r) = − det(q − p, r − q)`. -/
theorem earcut_area_eq (p q r : V2 α) :
    earcut_area p q r = - V2.det (V2.sub q p) (V2.sub r q) := by
  simp only [earcut_area, V2.det, V2.sub]; ring

/-- `_area(p, q, r) = − det(q − p, r − p)`: minus the doubled signed area of the triangle. -/
theorem earcut_area_eq_neg_triArea2 (p q r : V2 α) :
    earcut_area p q r = - triArea2 p q r := by
  simp only [earcut_area, triArea2, V2.det, V2.sub]; ring

/-- `_area(p, q, r)` is minus the shoelace value of the polygon `[p, q, r]`. -/
theorem earcut_area_eq_neg_shoelace (p q r : V2 α) :
    earcut_area p q r = - shoelace [p, q, r] := by
  rw [shoelace_triangle, earcut_area_eq_neg_triArea2, triArea2]

/-- Sign convention: `_area > 0` iff `p → q → r` is a clockwise turn in a y-up frame
(doubled signed area negative); `_area = 0` iff the points are collinear. -/
theorem earcut_area_sign (p q r : V2 α) :
    (0 < earcut_area p q r ↔ triArea2 p q r < 0) ∧
    (earcut_area p q r < 0 ↔ 0 < triArea2 p q r) ∧
    (earcut_area p q r = 0 ↔ triArea2 p q r = 0) := by
  rw [earcut_area_eq_neg_triArea2]
  exact ⟨neg_pos, neg_lt_zero, neg_eq_zero⟩

/-- `_area` is invariant under cyclic relabelling and changes sign under a swap. -/
theorem earcut_area_perm (p q r : V2 α) :
    earcut_area q r p = earcut_area p q r ∧ earcut_area q p r = - earcut_area p q r := by
  simp only [earcut_area]; constructor <;> ring

/-- `_equals` is equality of points. -/
theorem earcut_equals_iff (p q : V2 α) : earcut_equals p q = true ↔ p = q := by
  simp only [earcut_equals, decide_eq_true_eq]
  constructor
  · rintro ⟨hx, hy⟩; exact V2.ext' hx hy
  · rintro rfl; exact ⟨rfl, rfl⟩

/-! ## §2  `_point_in_triangle` -/

/-- `_point_in_triangle(a, b, c, p)` is the conjunction of the three orientation tests
`det(c − p, a − p) ≥ 0`, `det(a − p, b − p) ≥ 0`, `det(b − p, c − p) ≥ 0`. -/
theorem earcut_point_in_triangle_iff (a b c p : V2 α) :
    earcut_point_in_triangle a.x a.y b.x b.y c.x c.y p.x p.y = true ↔
      0 ≤ triArea2 p c a ∧ 0 ≤ triArea2 p a b ∧ 0 ≤ triArea2 p b c := by
  simp only [earcut_point_in_triangle, decide_eq_true_eq, not_lt, triArea2, V2.det, V2.sub,
    and_assoc]
  constructor <;> rintro ⟨h1, h2, h3⟩ <;> refine ⟨?_, ?_, ?_⟩ <;> linarith

/-- The three orientation values add up to the doubled area of the triangle. -/
theorem triArea2_split (a b c p : V2 α) :
    triArea2 p c a + triArea2 p a b + triArea2 p b c = triArea2 a b c := by
  simp only [triArea2, V2.det, V2.sub]; ring

/-- For a triangle of the other orientation (`det(b − a, c − a) < 0`) the test is never
true — earcut only calls it on ears it has already found to be positively oriented in this
convention. -/
theorem earcut_point_in_triangle_wrong_orientation (a b c p : V2 α)
    (h : triArea2 a b c < 0) :
    earcut_point_in_triangle a.x a.y b.x b.y c.x c.y p.x p.y = false := by
  rw [Bool.eq_false_iff, Ne, earcut_point_in_triangle_iff]
  rintro ⟨h1, h2, h3⟩
  have := triArea2_split a b c p
  linarith

/-- For a non-degenerate triangle with `det(b − a, c − a) > 0`, `_point_in_triangle` is
exactly membership in the closed triangle: `p` is a convex combination of `a, b, c` (the
weights are the barycentric coordinates `det(b−p, c−p)/D`, `det(c−p, a−p)/D`,
`det(a−p, b−p)/D`). -/
theorem earcut_point_in_triangle_iff_convex (a b c p : V2 α) (h : 0 < triArea2 a b c) :
    earcut_point_in_triangle a.x a.y b.x b.y c.x c.y p.x p.y = true ↔
      InClosedTriangle a b c p := by
  rw [earcut_point_in_triangle_iff]
  constructor
  · rintro ⟨hb, hc, ha⟩
    have he0 : 0 < (triArea2 a b c)⁻¹ := inv_pos.mpr h
    have he : triArea2 a b c * (triArea2 a b c)⁻¹ = 1 := mul_inv_cancel₀ h.ne'
    generalize (triArea2 a b c)⁻¹ = e at he he0
    refine ⟨triArea2 p b c * e, triArea2 p c a * e, triArea2 p a b * e,
      mul_nonneg ha he0.le, mul_nonneg hb he0.le, mul_nonneg hc he0.le, ?_, ?_, ?_⟩
    · simp only [triArea2, V2.det, V2.sub] at he ⊢
      linear_combination he
    · simp only [triArea2, V2.det, V2.sub] at he ⊢
      linear_combination (-p.x) * he
    · simp only [triArea2, V2.det, V2.sub] at he ⊢
      linear_combination (-p.y) * he
  · rintro ⟨la, lb, lc, ha, hb, hc, hsum, hx, hy⟩
    have e1 : triArea2 p b c = la * triArea2 a b c := by
      simp only [triArea2, V2.det, V2.sub]; rw [hx, hy]
      linear_combination (-(b.x * c.y - b.y * c.x)) * hsum
    have e2 : triArea2 p c a = lb * triArea2 a b c := by
      simp only [triArea2, V2.det, V2.sub]; rw [hx, hy]
      linear_combination (-(c.x * a.y - c.y * a.x)) * hsum
    have e3 : triArea2 p a b = lc * triArea2 a b c := by
      simp only [triArea2, V2.det, V2.sub]; rw [hx, hy]
      linear_combination (-(a.x * b.y - a.y * b.x)) * hsum
    rw [e1, e2, e3]
    exact ⟨mul_nonneg hb h.le, mul_nonneg hc h.le, mul_nonneg ha h.le⟩

/-! ## §3  `_intersects` -/

set_option linter.unusedSimpArgs false in
/-- **Specification of `_intersects`.**  It returns `True` iff both segments are single
points, or one segment is the reverse of the other, or the sign tests
`(area(p1,q1,p2) > 0) != (area(p1,q1,q2) > 0)` and `(area(p2,q2,p1) > 0) != (area(p2,q2,q1) > 0)`
both hold.  (With Python's *chained* reading `a > 0 != b > 0`, i.e. `a > 0 and 0 != b and
b > 0`, this statement is false — that was the repaired defect.) -/
theorem earcut_intersects_spec (p1 q1 p2 q2 : V2 α) :
    earcut_intersects p1 q1 p2 q2 = true ↔
      (p1 = q1 ∧ p2 = q2) ∨ (p1 = q2 ∧ p2 = q1) ∨ SidesDiffer p1 q1 p2 q2 := by
  have ext : ∀ u v : V2 α, (u.x = v.x ∧ u.y = v.y) ↔ u = v := fun u v =>
    ⟨fun h => V2.ext' h.1 h.2, by rintro rfl; exact ⟨rfl, rfl⟩⟩
  by_cases h1 : 0 < earcut_area p1 q1 p2 <;> by_cases h2 : 0 < earcut_area p1 q1 q2 <;>
    by_cases h3 : 0 < earcut_area p2 q2 p1 <;> by_cases h4 : 0 < earcut_area p2 q2 q1 <;>
    simp only [earcut_intersects, decide_eq_true_eq, SidesDiffer, signDiffers_iff_not_iff,
      ext] <;>
    simp only [earcut_area] at h1 h2 h3 h4 ⊢ <;>
    simp only [h1, h2, h3, h4, true_and, and_true, not_true, not_false_eq_true, false_and,
      and_false, or_false, false_or, iff_true, iff_false, true_iff, false_iff, and_self,
      or_self, not_not] <;>
    tauto

/-- `_intersects` does not depend on the order of the two segments. -/
theorem earcut_intersects_comm (p1 q1 p2 q2 : V2 α) :
    earcut_intersects p1 q1 p2 q2 = earcut_intersects p2 q2 p1 q1 := by
  rw [Bool.eq_iff_iff, earcut_intersects_spec, earcut_intersects_spec]
  simp only [SidesDiffer]
  constructor <;> (rintro (⟨h1, h2⟩ | ⟨h1, h2⟩ | ⟨h1, h2⟩)) <;>
    first
      | exact Or.inl ⟨h2, h1⟩
      | exact Or.inr (Or.inl ⟨h2, h1⟩)
      | exact Or.inr (Or.inr ⟨h2, h1⟩)

/-- The four orientation values are not independent: `area(p1,q1,p2) − area(p1,q1,q2)` and
`area(p2,q2,q1) − area(p2,q2,p1)` are both the direction determinant `det(q1−p1, q2−p2)`.
(So the sign pattern `(+,−,+,−)` of the abstract counter-example to the chained comparison is
not realised by points; crossings have pattern `(+,−,−,+)` or `(−,+,+,−)`.) -/
theorem earcut_area_constraint (p1 q1 p2 q2 : V2 α) :
    earcut_area p1 q1 p2 - earcut_area p1 q1 q2 = V2.det (V2.sub q1 p1) (V2.sub q2 p2) ∧
    earcut_area p2 q2 q1 - earcut_area p2 q2 p1 = V2.det (V2.sub q1 p1) (V2.sub q2 p2) := by
  refine ⟨earcut_area_diff₁ p1 q1 p2 q2, ?_⟩
  have := earcut_area_diff₂ p1 q1 p2 q2
  linear_combination -this

/-- **Completeness for proper crossings**: if the open segments meet in a point and are not
parallel (direction determinant `≠ 0`, so the common point is unique), `_intersects` is
`True`. -/
theorem earcut_intersects_of_proper_crossing (p1 q1 p2 q2 : V2 α)
    (hD : V2.det (V2.sub q1 p1) (V2.sub q2 p2) ≠ 0) (h : OpenSegmentsMeet p1 q1 p2 q2) :
    earcut_intersects p1 q1 p2 q2 = true := by
  obtain ⟨s, t, hs0, hs1, ht0, ht1, hpt⟩ := h
  have hx : p1.x + s * (q1.x - p1.x) = p2.x + t * (q2.x - p2.x) := by
    have := congrArg V2.x hpt; simpa [segPoint, V2.add, V2.smul, V2.sub] using this
  have hy : p1.y + s * (q1.y - p1.y) = p2.y + t * (q2.y - p2.y) := by
    have := congrArg V2.y hpt; simpa [segPoint, V2.add, V2.smul, V2.sub] using this
  obtain ⟨e1, e2, e3, e4⟩ := earcut_areas_of_crossing p1 q1 p2 q2 s t hx hy
  rw [earcut_intersects_spec]
  right; right
  unfold SidesDiffer
  rw [signDiffers_iff, signDiffers_iff, e1, e2, e3, e4]
  have h1t : 0 < 1 - t := by linarith
  have h1s : 0 < 1 - s := by linarith
  rcases lt_or_gt_of_ne hD with hneg | hpos
  · refine ⟨Or.inr ⟨?_, ?_⟩, Or.inl ⟨?_, ?_⟩⟩
    · exact (mul_neg_of_pos_of_neg ht0 hneg).le
    · have := mul_pos_of_neg_of_neg (neg_lt_zero.mpr h1t) hneg; linarith
    · have := mul_pos_of_neg_of_neg (neg_lt_zero.mpr hs0) hneg; linarith
    · exact (mul_neg_of_pos_of_neg h1s hneg).le
  · refine ⟨Or.inl ⟨?_, ?_⟩, Or.inr ⟨?_, ?_⟩⟩
    · exact mul_pos ht0 hpos
    · have := mul_pos h1t hpos; linarith
    · have := mul_pos hs0 hpos; linarith
    · exact mul_pos h1s hpos

/-- **Soundness of the sign tests (closed segments)**: if the third disjunct of `_intersects`
holds, the segments are not parallel and the closed segments have a common point. -/
theorem earcut_intersects_sound_closed (p1 q1 p2 q2 : V2 α) (h : SidesDiffer p1 q1 p2 q2) :
    V2.det (V2.sub q1 p1) (V2.sub q2 p2) ≠ 0 ∧ ClosedSegmentsMeet p1 q1 p2 q2 := by
  obtain ⟨ha, hb⟩ := h
  obtain ⟨hd1, t0, t1, _⟩ := signDiffers_frac ha
  obtain ⟨_, s0, s1, _⟩ := signDiffers_frac hb
  rw [earcut_area_diff₁] at hd1 t0 t1
  rw [earcut_area_diff₂] at s0 s1
  obtain ⟨cx, cy⟩ := earcut_cramer p1 q1 p2 q2 hd1
  rw [div_neg, ← neg_div] at s0 s1
  exact ⟨hd1, _, _, s0, s1, t0, t1, V2.ext' (by simpa [segPoint, V2.add, V2.smul, V2.sub] using cx)
    (by simpa [segPoint, V2.add, V2.smul, V2.sub] using cy)⟩

/-- **Soundness of the sign tests (open segments)**: if the third disjunct of `_intersects`
holds and none of the four orientation values is zero (no end point on the other segment's
carrier line), the open segments cross. -/
theorem earcut_intersects_sound (p1 q1 p2 q2 : V2 α) (h : SidesDiffer p1 q1 p2 q2)
    (h1 : earcut_area p1 q1 p2 ≠ 0) (h2 : earcut_area p1 q1 q2 ≠ 0)
    (h3 : earcut_area p2 q2 p1 ≠ 0) (h4 : earcut_area p2 q2 q1 ≠ 0) :
    V2.det (V2.sub q1 p1) (V2.sub q2 p2) ≠ 0 ∧ OpenSegmentsMeet p1 q1 p2 q2 := by
  obtain ⟨ha, hb⟩ := h
  obtain ⟨hd1, _, _, ht⟩ := signDiffers_frac ha
  obtain ⟨_, _, _, hs⟩ := signDiffers_frac hb
  obtain ⟨t0, t1⟩ := ht h1 h2
  obtain ⟨s0, s1⟩ := hs h3 h4
  rw [earcut_area_diff₁] at hd1 t0 t1
  rw [earcut_area_diff₂] at s0 s1
  obtain ⟨cx, cy⟩ := earcut_cramer p1 q1 p2 q2 hd1
  rw [div_neg, ← neg_div] at s0 s1
  exact ⟨hd1, _, _, s0, s1, t0, t1, V2.ext' (by simpa [segPoint, V2.add, V2.smul, V2.sub] using cx)
    (by simpa [segPoint, V2.add, V2.smul, V2.sub] using cy)⟩

/-- Consequently a `True` from `_intersects` certifies a common point of the closed segments,
EXCEPT in the first coincidence case: when both segments are single points (`p1 = q1`,
`p2 = q2`) `_intersects` answers `True` even if the two points differ (a quirk inherited from
the JavaScript original, see the `example` below); that case is excluded by `hnd`. -/
theorem earcut_intersects_true_meets (p1 q1 p2 q2 : V2 α)
    (h : earcut_intersects p1 q1 p2 q2 = true) (hnd : ¬ (p1 = q1 ∧ p2 = q2)) :
    ClosedSegmentsMeet p1 q1 p2 q2 := by
  rw [earcut_intersects_spec] at h
  rcases h with h | ⟨rfl, rfl⟩ | h
  · exact absurd h hnd
  · exact ⟨0, 1, le_refl _, zero_le_one, zero_le_one, le_refl _,
      V2.ext' (by simp [segPoint, V2.add, V2.smul, V2.sub])
        (by simp [segPoint, V2.add, V2.smul, V2.sub])⟩
  · exact (earcut_intersects_sound_closed p1 q1 p2 q2 h).2

/-! ### Non-vacuity at ℚ -/

/-- The diagonals of a square cross: orientation values `(4, −4, −4, 4)` — pattern
`(+,−,−,+)` — and `_intersects` is `True`; the (repaired) chained reading
`a1 > 0 ∧ a2 ≠ 0 ∧ a2 > 0 ∧ …` would have said `False`. -/
example :
    let p1 : V2 ℚ := ⟨0, 0⟩; let q1 : V2 ℚ := ⟨2, 2⟩
    let p2 : V2 ℚ := ⟨2, 0⟩; let q2 : V2 ℚ := ⟨0, 2⟩
    earcut_intersects p1 q1 p2 q2 = true ∧
    (earcut_area p1 q1 p2, earcut_area p1 q1 q2, earcut_area p2 q2 p1, earcut_area p2 q2 q1)
      = (4, -4, -4, 4) ∧
    ¬ ((0 < earcut_area p1 q1 p2 ∧ earcut_area p1 q1 q2 ≠ 0 ∧ 0 < earcut_area p1 q1 q2) ∧
       (0 < earcut_area p2 q2 p1 ∧ earcut_area p2 q2 q1 ≠ 0 ∧ 0 < earcut_area p2 q2 q1)) := by
  decide +kernel

/-- Two disjoint parallel-ish segments with all four orientation values positive: the sign
tests say `False` (the chained reading said `True` here). -/
example :
    let p1 : V2 ℚ := ⟨0, 0⟩; let q1 : V2 ℚ := ⟨0, 1 / 2⟩
    let p2 : V2 ℚ := ⟨1, 2⟩; let q2 : V2 ℚ := ⟨2, 3⟩
    earcut_intersects p1 q1 p2 q2 = false ∧
    0 < earcut_area p1 q1 p2 ∧ 0 < earcut_area p1 q1 q2 ∧
    0 < earcut_area p2 q2 p1 ∧ 0 < earcut_area p2 q2 q1 := by
  decide +kernel

/-- Two different degenerate segments (points) are reported as intersecting. -/
example : earcut_intersects (⟨0, 0⟩ : V2 ℚ) ⟨0, 0⟩ ⟨5, 5⟩ ⟨5, 5⟩ = true := by decide +kernel

/-- The hypotheses of `earcut_intersects_of_proper_crossing` are satisfiable: the diagonals
of the square meet at parameters `1/2, 1/2`. -/
example : OpenSegmentsMeet (⟨0, 0⟩ : V2 ℚ) ⟨2, 2⟩ ⟨2, 0⟩ ⟨0, 2⟩ :=
  ⟨1 / 2, 1 / 2, by norm_num, by norm_num, by norm_num, by norm_num, by decide +kernel⟩

/-- `(1,1)` is in the triangle `(0,0),(4,0),(0,4)`; `(3,3)` is not. -/
example : earcut_point_in_triangle (0 : ℚ) 0 4 0 0 4 1 1 = true ∧
    earcut_point_in_triangle (0 : ℚ) 0 4 0 0 4 3 3 = false := by decide +kernel

/-! ## §4  Tiling certificate for triangulation outputs -/

section tiling
variable {ι : Type}

/-- Sum of the doubled signed areas of the index triangles `T` over the vertex map `v`. -/
def trisArea2 (v : ι → V2 α) (T : List (ι × ι × ι)) : α :=
  (T.map (fun t => triArea2 (v t.1) (v t.2.1) (v t.2.2))).sum

/-- Sum of the shoelace values (doubled signed areas) of the index loops over `v`; a hole
listed with the opposite orientation of the boundary contributes negatively. -/
def loopsArea2 (v : ι → V2 α) (loops : List (List ι)) : α :=
  (loops.map (fun l => shoelace (l.map v))).sum

/-- Doubled triangle area as the sum of `det` around its edges. -/
theorem triArea2_eq_det_sum (a b c : V2 α) :
    triArea2 a b c = V2.det a b + V2.det b c + V2.det c a := by
  simp only [triArea2, V2.det, V2.sub]; ring

/-- Triangle areas as a `triSum` of the edge functional `det (v i) (v j)`. -/
theorem trisArea2_eq_triSum (v : ι → V2 α) (T : List (ι × ι × ι)) :
    trisArea2 v T = triSum (fun i j => V2.det (v i) (v j)) T := by
  simp only [trisArea2, triSum, triArea2_eq_det_sum]

/-- Loop areas as the `edgeSum` of `det (v i) (v j)` over the loops' directed edges. -/
theorem loopsArea2_eq_edgeSum (v : ι → V2 α) (loops : List (List ι)) :
    loopsArea2 v loops = edgeSum (fun i j => V2.det (v i) (v j)) (loopEdges loops) := by
  rw [edgeSum_loopEdges]
  simp only [loopsArea2, shoelace_eq_cycSum, cycSum_map]

/-- **Tiling certificate, multiset form.**  If the directed edges of the triangles are —
as a multiset — the directed edges of the input loops (each loop in its own direction) plus
interior edges `E`, each accompanied by its reverse, then the doubled triangle areas sum to
the sum of the loops' shoelace values (boundary plus oppositely oriented holes). -/
theorem tiling_area_certificate (v : ι → V2 α) (T : List (ι × ι × ι)) (loops : List (List ι))
    (E : List (ι × ι))
    (h : (dirEdges T).Perm (loopEdges loops ++ E ++ E.map Prod.swap)) :
    trisArea2 v T = loopsArea2 v loops := by
  rw [trisArea2_eq_triSum, loopsArea2_eq_edgeSum]
  exact triSum_of_cancelling_cover _ (fun i j => det_antisymm (v i) (v j)) T _ E h

/-- **Tiling certificate, edge-incidence form** (decided by the harness on every output): no
directed edge is used by two triangles, the loops' directed edges are pairwise different, and
a directed edge belongs to an input loop exactly when it is a triangle edge whose reverse is
not a triangle edge ("every input edge is used by exactly one triangle, every other edge by
exactly two, with opposite directions").  Then the doubled triangle areas sum to the
shoelace values of the loops. -/
theorem tiling_area_certificate_incidence [DecidableEq ι] (v : ι → V2 α)
    (T : List (ι × ι × ι)) (loops : List (List ι))
    (hD : (dirEdges T).Nodup) (hB : (loopEdges loops).Nodup)
    (hmem : ∀ e, e ∈ loopEdges loops ↔ (e ∈ dirEdges T ∧ e.swap ∉ dirEdges T)) :
    trisArea2 v T = loopsArea2 v loops := by
  rw [trisArea2_eq_triSum, loopsArea2_eq_edgeSum]
  exact triSum_of_edge_incidence two_ne_zero _ (fun i j => det_antisymm (v i) (v j)) T _
    hD hB hmem

/-- **Tiling certificate, decidable form**: `EdgeIncidence` only has quantifiers bounded by
the edge lists, so the harness driver evaluates it (`decide`) on the index data of every
output; when it holds the doubled triangle areas sum to the shoelace values of the loops. -/
theorem tiling_area_certificate_checked [DecidableEq ι] (v : ι → V2 α)
    (T : List (ι × ι × ι)) (loops : List (List ι))
    (h : EdgeIncidence T (loopEdges loops)) :
    trisArea2 v T = loopsArea2 v loops :=
  tiling_area_certificate_incidence v T loops h.1 h.2.1 h.mem_iff

/-- **Tiling certificate, net-flux form** (weakest hypothesis): for every directed edge, the
number of triangles using it minus the number using its reverse equals the same difference
for the loops' edges. -/
theorem tiling_area_certificate_flux (v : ι → V2 α) (T : List (ι × ι × ι))
    (loops : List (List ι))
    (h : (dirEdges T ++ (loopEdges loops).map Prod.swap).Perm
      ((dirEdges T).map Prod.swap ++ loopEdges loops)) :
    trisArea2 v T = loopsArea2 v loops := by
  rw [trisArea2_eq_triSum, loopsArea2_eq_edgeSum]
  exact triSum_of_flux_eq two_ne_zero _ (fun i j => det_antisymm (v i) (v j)) T _ h

/-- Boundary with holes listed as earcut consumes them after orientation fixing (holes
opposite to the boundary): total = shoelace(boundary) + Σ shoelace(holes). -/
theorem loopsArea2_boundary_holes (v : ι → V2 α) (boundary : List ι) (holes : List (List ι)) :
    loopsArea2 v (boundary :: holes) =
      shoelace (boundary.map v) + (holes.map (fun h => shoelace (h.map v))).sum := by
  simp [loopsArea2]

/-- Holes given with the SAME orientation as the boundary (as in the harness' input) and
reversed for the certificate: total = shoelace(boundary) − Σ shoelace(holes), i.e. the area of
the shape with the holes subtracted. -/
theorem loopsArea2_boundary_minus_holes (v : ι → V2 α) (boundary : List ι)
    (holes : List (List ι)) :
    loopsArea2 v (boundary :: holes.map List.reverse) =
      shoelace (boundary.map v) - (holes.map (fun h => shoelace (h.map v))).sum := by
  rw [loopsArea2_boundary_holes, sub_eq_add_neg]
  congr 1
  induction holes with
  | nil => simp
  | cons h hs ih =>
    simp only [List.map_cons, List.sum_cons, ih, List.map_reverse, shoelace_reverse]
    ring

/-- **Fan shortcut of `Mesh2D.from_polygon_triangulated`** (`faces = (0, i, i+1)`,
`i = 1 … n−2`, used when the polygon is convex and has no holes): the doubled areas of the fan
triangles sum to the shoelace value of the polygon — for every polygon, convex or not. -/
theorem fan_triangulation_area (p0 : V2 α) (rest : List (V2 α)) :
    ((rest.zip rest.tail).map (fun e => triArea2 p0 e.1 e.2)).sum = shoelace (p0 :: rest) := by
  rw [shoelace_fan_head]; rfl

/-- The face list built by the fan branch of `Mesh2D.from_polygon_triangulated`:
`[(0, i, i + 1) for i in range(1, n - 1)]`. -/
def fanFaces (n : ℕ) : List (ℕ × ℕ × ℕ) := (List.range (n - 2)).map (fun k => (0, k + 1, k + 2))

/-- **Fan shortcut, index form**: over the vertex array `vs` the faces `fanFaces vs.length`
have doubled areas summing to `shoelace vs` (for every vertex list, also the empty one). -/
theorem fan_faces_area (vs : List (V2 α)) (d : V2 α) :
    trisArea2 (fun i => vs.getD i d) (fanFaces vs.length) = shoelace vs := by
  cases vs with
  | nil => simp [trisArea2, fanFaces]
  | cons p0 rest =>
    rw [← fan_triangulation_area, zip_tail_eq_range rest d]
    simp only [trisArea2, fanFaces, List.map_map, List.length_cons,
      show rest.length + 1 - 2 = rest.length - 1 by omega]
    congr 1

/-! ### Non-vacuity of the certificate at ℚ -/

/-- A square cut by one diagonal: the edge-incidence check passes (so the certificate's
hypotheses are satisfiable) and both sides are the doubled area 32. -/
example :
    let vs : List (V2 ℚ) := [⟨0, 0⟩, ⟨4, 0⟩, ⟨4, 4⟩, ⟨0, 4⟩]
    let T : List (ℕ × ℕ × ℕ) := [(0, 1, 2), (0, 2, 3)]
    EdgeIncidence T (loopEdges [[0, 1, 2, 3]]) ∧
    trisArea2 (fun i => vs.getD i ⟨0, 0⟩) T = 32 ∧
    loopsArea2 (fun i => vs.getD i ⟨0, 0⟩) [[0, 1, 2, 3]] = 32 := by
  refine ⟨by decide, by decide +kernel, by decide +kernel⟩

/-- A square with a triangular hole (hole listed clockwise, i.e. opposite to the boundary),
seven triangles: the edge-incidence check passes, and both sides are `2·(16 − 2) = 28`. -/
example :
    let vs : List (V2 ℚ) := [⟨0, 0⟩, ⟨4, 0⟩, ⟨4, 4⟩, ⟨0, 4⟩, ⟨1, 1⟩, ⟨2, 3⟩, ⟨3, 1⟩]
    let T : List (ℕ × ℕ × ℕ) :=
      [(0, 1, 4), (1, 6, 4), (1, 2, 6), (2, 5, 6), (2, 3, 5), (3, 4, 5), (3, 0, 4)]
    EdgeIncidence T (loopEdges [[0, 1, 2, 3], [4, 5, 6]]) ∧
    trisArea2 (fun i => vs.getD i ⟨0, 0⟩) T = 28 ∧
    loopsArea2 (fun i => vs.getD i ⟨0, 0⟩) [[0, 1, 2, 3], [4, 5, 6]] = 28 := by
  refine ⟨by decide, by decide +kernel, by decide +kernel⟩

/-- An overlapping "triangulation" of the square (the kind the chained-comparison defect
produced: both diagonals used) FAILS the edge-incidence check. -/
example : ¬ EdgeIncidence ([(0, 1, 2), (0, 2, 3), (0, 1, 3)] : List (ℕ × ℕ × ℕ))
    (loopEdges [[0, 1, 2, 3]]) := by decide

/-- The fan faces of a pentagon. -/
example : fanFaces 5 = [(0, 1, 2), (0, 2, 3), (0, 3, 4)] := by decide

end tiling

end Lbg.Props.C05
