/-
  C19h — offsets: theorems about the GENERATED definitions of `Polygon2D.offset`,
  `Polyline2D.offset` (`Gen/Offset.lean`, third translator generation; ZeroDivisionError and
  the constructor's AssertionError are part of the model: `none`).

  * `polygon2d_offset_zero`, `polygon2d_offset_check_zero`, `polyline2_offset_zero`:
    `offset(0)` returns the object itself (the early `if distance == 0: return self`), with or
    without the intersection check.
-/
import LbgVerif.Gen.Offset
import Mathlib.Algebra.Order.Field.Rat

namespace Lbg.Props.C19h
open Lbg Lbg.Gen
variable {α : Type} [Field α] [LinearOrder α]

/-- `Polygon2D.offset(0)` returns the polygon unchanged. -/
theorem polygon2d_offset_zero (M : MathOps α) (vs : List (V2 α)) :
    polygon2d_offset M vs 0 = some vs := by
  unfold polygon2d_offset
  simp only [if_true]

/-- `Polygon2D.offset(0, check_intersection=True)` returns the polygon unchanged. -/
theorem polygon2d_offset_check_zero (M : MathOps α) (vs : List (V2 α)) :
    polygon2d_offset_check M vs 0 = some (some vs) := by
  unfold polygon2d_offset_check
  simp only [if_true]

/-- `Polyline2D.offset(0)` returns the polyline unchanged. -/
theorem polyline2_offset_zero (M : MathOps α) (vs : List (V2 α)) (i : Bool) :
    polyline2_offset M vs i 0 = some vs := by
  unfold polyline2_offset
  simp only [if_true]

end Lbg.Props.C19h
