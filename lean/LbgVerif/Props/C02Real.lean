/-
  C02 — non-vacuity of the `sqrt` law over ℝ.

  Several C02 theorems (`seg*_scale_length`, `cyl_scale_measures`, `cone_scale_measures`, …) assume
  the law `∀ x ≥ 0, M.sqrt x · M.sqrt x = x ∧ 0 ≤ M.sqrt x`.  It cannot hold over ℚ (√2), so the
  witness is given over ℝ with `Real.sqrt`.  Kept in a separate file because it needs a heavier
  import than the property file itself.  Only `example`s, no new theorems.
-/
import LbgVerif.Props.C02
import Mathlib.Analysis.Real.Sqrt

namespace Lbg.Props.C02
open Lbg

/-- Math operations over ℝ with the real square root; `cos ≡ 3/5`, `sin ≡ -4/5` (any point of the
unit circle would do). -/
noncomputable def Mr : MathOps ℝ where
  sqrt := Real.sqrt
  sin := fun _ => -4 / 5
  cos := fun _ => 3 / 5
  tan := fun _ => 0
  acos := fun _ => 0
  asin := fun _ => 0
  atan2 := fun _ _ => 0
  pi := 3
  floor := fun x => ((⌊x⌋ : ℤ) : ℝ)

/-- The `sqrt` law, `sqrt 1 = 1`, `cos² + sin² = 1` (every angle), the floor law, integrality of
`floor` and `0 < π` hold together for `Mr`. -/
example :
    (∀ x : ℝ, 0 ≤ x → Mr.sqrt x * Mr.sqrt x = x ∧ 0 ≤ Mr.sqrt x) ∧ Mr.sqrt 1 = 1 ∧
    (∀ θ : ℝ, Mr.cos θ * Mr.cos θ + Mr.sin θ * Mr.sin θ = 1) ∧
    (∀ x : ℝ, Mr.floor x ≤ x ∧ x < Mr.floor x + 1) ∧ (∀ x : ℝ, ∃ n : ℤ, Mr.floor x = n) ∧
    0 < Mr.pi :=
  ⟨fun x hx => ⟨Real.mul_self_sqrt hx, Real.sqrt_nonneg x⟩, Real.sqrt_one,
   fun _ => by simp only [Mr]; norm_num,
   fun x => ⟨Int.floor_le x, Int.lt_floor_add_one x⟩, fun x => ⟨⌊x⌋, rfl⟩,
   by simp only [Mr]; norm_num⟩

end Lbg.Props.C02
