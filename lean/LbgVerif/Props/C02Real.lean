/-
  C02 — non-vacuity of the analytic hypotheses over ℝ.

  Several C02 theorems assume laws about `M.sqrt`, `M.floor`, `M.cos`, `M.sin`, `M.acos` that
  cannot hold over ℚ (√2, …): the `sqrt` law, the floor law with integrality, `cos² + sin² = 1`
  for every angle, parity, and the polar-angle law `PolarLaw` used for `Arc2D.reflect`.  Here they
  are all shown to hold SIMULTANEOUSLY for the real functions (`Real.sqrt`, `Real.cos`, `Real.sin`,
  `Real.arccos`, `Real.pi`, `⌊·⌋`).  Kept in a separate file because it needs heavier imports than
  the property file itself.  Only a witness definition and `example`s, no new theorems.
-/
import LbgVerif.Props.C02
import Mathlib.Analysis.Real.Sqrt
import Mathlib.Analysis.SpecialFunctions.Trigonometric.Inverse

namespace Lbg.Props.C02
open Lbg Lbg.Gen

/-- The real-number math operations. -/
noncomputable def Mr : MathOps ℝ where
  sqrt := Real.sqrt
  sin := Real.sin
  cos := Real.cos
  tan := Real.tan
  acos := Real.arccos
  asin := Real.arcsin
  atan2 := fun _ _ => 0
  pi := Real.pi
  floor := fun x => ((⌊x⌋ : ℤ) : ℝ)

/-- The `sqrt` law, `sqrt 1 = 1`, `cos² + sin² = 1` and parity for every angle, the floor law,
integrality of `floor`, `0 < π`, `2π`-periodicity in the form used by `arc2_rotate_p1/p2`, and the
angle-addition law hold together for `Mr`. -/
example :
    (∀ x : ℝ, 0 ≤ x → Mr.sqrt x * Mr.sqrt x = x ∧ 0 ≤ Mr.sqrt x) ∧ Mr.sqrt 1 = 1 ∧
    (∀ θ : ℝ, Mr.cos θ * Mr.cos θ + Mr.sin θ * Mr.sin θ = 1) ∧
    (∀ θ : ℝ, Mr.cos (-θ) = Mr.cos θ ∧ Mr.sin (-θ) = -Mr.sin θ) ∧
    (∀ x : ℝ, Mr.floor x ≤ x ∧ x < Mr.floor x + 1) ∧ (∀ x : ℝ, ∃ n : ℤ, Mr.floor x = n) ∧
    0 < Mr.pi ∧
    (∀ (x : ℝ) (m : ℤ), Mr.cos (x - m * (2 * Mr.pi)) = Mr.cos x ∧
        Mr.sin (x - m * (2 * Mr.pi)) = Mr.sin x) ∧
    (∀ x θ : ℝ, Mr.cos (x + θ) = Mr.cos x * Mr.cos θ - Mr.sin x * Mr.sin θ ∧
        Mr.sin (x + θ) = Mr.sin x * Mr.cos θ + Mr.cos x * Mr.sin θ) :=
  ⟨fun x hx => ⟨Real.mul_self_sqrt hx, Real.sqrt_nonneg x⟩, Real.sqrt_one,
   fun θ => by simp only [Mr]; nlinarith [Real.sin_sq_add_cos_sq θ],
   fun θ => ⟨Real.cos_neg θ, Real.sin_neg θ⟩,
   fun x => ⟨Int.floor_le x, Int.lt_floor_add_one x⟩, fun x => ⟨⌊x⌋, rfl⟩,
   Real.pi_pos,
   fun x m => ⟨Real.cos_sub_int_mul_two_pi x m, Real.sin_sub_int_mul_two_pi x m⟩,
   fun x θ => ⟨Real.cos_add x θ, Real.sin_add x θ⟩⟩

/-- The polar-angle law (hypothesis of `arc2_reflect_endpoints_of_polar`) holds for the real
functions: for `q` at distance `ρ > 0` from the centre, the `acos`-based angle `φ` measured by
`arc2_a_from_pt` satisfies `ρ cos φ = Δx`, `ρ sin φ = Δy`. -/
example : PolarLaw Mr := by
  intro b q ρ hρ hd
  simp only [distSq2, V2.sub, V2.normSq] at hd
  simp only [arc2_a_from_pt, Mr]
  set dx := q.x - b.c.x with hdx
  set dy := q.y - b.c.y with hdy
  have hs : Real.sqrt (dx * dx + dy * dy) = ρ := by
    rw [hd]; exact Real.sqrt_mul_self hρ.le
  rw [hs, Real.sqrt_one]
  have hq : (1 * dx + 0 * dy) / (1 * ρ) = dx / ρ := by ring
  rw [hq]
  have hx2 : dx * dx ≤ ρ * ρ := by nlinarith [mul_self_nonneg dy]
  have hb : -ρ ≤ dx ∧ dx ≤ ρ := abs_le_of_sq_le_sq' (by nlinarith : dx ^ 2 ≤ ρ ^ 2) hρ.le
  have h1 : -1 ≤ dx / ρ := by
    rw [le_div_iff₀ hρ]; linarith [hb.1]
  have h2 : dx / ρ ≤ 1 := by
    rw [div_le_iff₀ hρ]; linarith [hb.2]
  have hcos : Real.cos (Real.arccos (dx / ρ)) = dx / ρ := Real.cos_arccos h1 h2
  have hsin : Real.sin (Real.arccos (dx / ρ)) = |dy| / ρ := by
    rw [Real.sin_arccos]
    have : 1 - (dx / ρ) ^ 2 = (dy / ρ) ^ 2 := by
      field_simp; nlinarith
    rw [this, Real.sqrt_sq_eq_abs, abs_div, abs_of_pos hρ]
  have hdet : (1 * dy - 0 * dx < 0) ↔ dy < 0 := by
    constructor <;> intro h <;> linarith
  by_cases hneg : dy < 0
  · have c : ¬¬(1 * dy - 0 * dx < 0) := not_not.mpr (hdet.mpr hneg)
    rw [if_neg c, Real.cos_two_pi_sub, Real.sin_two_pi_sub, hcos, hsin, abs_of_neg hneg]
    constructor <;> field_simp
  · have c : ¬(1 * dy - 0 * dx < 0) := fun h => hneg (hdet.mp h)
    rw [if_pos c, hcos, hsin, abs_of_nonneg (not_lt.mp hneg)]
    constructor <;> field_simp

end Lbg.Props.C02
